"""C15 — every operation terminates on every reference-graph shape (and the reachability worklist is correct)."""
import json
import os
import signal
import subprocess
import sys
import time

from harness import core, scen
from harness.gallina import gbool, glist, gn, gopt, gstr, gz

ID = "C15"
COQ_TARGETS = ["Reach.vo", "ReachProofs.vo", "ReachSpec.vo", "RefutedC15.vo", "ReachList.vo", "ReachListProofs.vo",
               "TS.vo", "TSProofs.vo", "Merge.vo", "MergeProofs.vo", "ReachTypes.vo", "ReachPrefix.vo", "ReachPrefixProofs.vo",
               "CorrC15.vo", "Props/C15.vo"]
PROPS_FILE = "Props/C15.v"
CORR_IMPORTS = "Base Heap Schema Reach CorrC15"
ENTRY = "cassis.cas.Cas._find_all_fs (and to_xmi / to_json / load_cas_from_xmi / load_cas_from_json / typecheck / select / cas_to_comparable_text for the deadline)"
CASE_TIMEOUT_S = 10          # graph cases take milliseconds; the deadline replay extends its own alarm
RULE = (
    "Correspondence: systematic reference-graph shapes (chains, cycles, self-references, diamond chains, inline and "
    "shared FSArray/FSList holding the same or an already visited structure several times, null elements, cyclic tail "
    "chains, TOP-ranged features, instances of uima.cas.TOP itself, cas:NULL ids, forced duplicate ids, explicit seeds; "
    "lists of primitive values IntegerList/FloatList/StringList inline and shared, ending, with a missing tail, empty, and "
    "cyclic through the tail of the last node back to the first / a middle / the last node itself) at several small sizes, random graphs "
    "over the same type system and random scen.gen_tspec/gen_cspec CASes; each with include_inlinable_arrays_and_lists "
    "False and True and with no / partial / all explicit ids. Observation: (xmiID, label) in the order returned, ids of "
    "all objects and the generator's next id afterwards, or the error kind; and on a CAS built the same way to_xmi, "
    "to_json, typecheck, load_cas_from_xmi, load_cas_from_json each under a CPU deadline of 2 s (oracle: every one comes "
    "back; to_xmi may refuse with ValueError only a cyclic list it would have to write inline or a duplicate id; in Coq: "
    "returned / refused = ReachList.to_xmi_lists). Third wave: collections inside collections (FSArrays reachable only through "
    "FSArrays as chain / diamond / cycle / self containment, entered through a reference, an inline feature or an index; arrays of "
    "list nodes whose heads are arrays; random graphs whose collection elements are collections, with cycles through arrays only) in "
    "the same correspondence; and type trees built through every route (create_type, merge_typesystems of coarser / finer / equal "
    "versions all at once or folded, XML round trip then merged again, load_cas_from_json with an embedded type system), observed "
    "after every stage on the same objects: types handed out by the walk over the subtypes of every type (oracle: none twice, never "
    "more than there are types) and select / select_covered under the CPU deadline (oracle only, no Gallina case). "
    "Fourth wave: the same graph shapes over type systems whose types live in several packages (every ordered pair and triple of "
    "packages ending in the same component / in a numbered one / in a prefix the XMI writer reserves, written in that order; all "
    "eight names of the shared generator), with the prefixes of the XMI document compared in Coq with ReachPrefix.assign_all; arrays "
    "nested 24 deep in the quick tier; cas_to_comparable_text on every graph with default and with optional arguments (exclude_types = "
    "the collection types / everything else / one type at a time, mark_indexed, covered_text, explicit seeds) under the CPU deadline; "
    "type trees whose versions contradict each other (a type above another in one version and below it in another, directly or "
    "only through a third version; depth up to 30; independent random trees over one pool of names): whatever merge_typesystems / "
    "load_cas_from_json hands out, every supertype chain ends within as many steps as there are types and subsumes / is_instance_of "
    "between all pairs / typecheck / to_xmi / to_json / select come back (a refusal is C13's business). "
    "Deadline obligation: 23 shapes (third wave: nested_arrays, nested_collections, merged_types = merged type tree of depth 10/20/40 "
    "with the step count of the subtype walk; fourth wave: colliding_packages, and the operation cas_to_comparable_text with optional arguments) x sizes "
    "n,2n,4n (quick 250/500/1000, thorough 1000/2000/4000; diamond depth 50/100/200; type-reference ladder depth 15/30/60; "
    "lists, also of primitive values, additionally 5000/8000) x 9 operations (to_json with type systems FULL and MINIMAL) in subprocesses, CPU cap and growth-ratio cap 12 per doubling. A case is non-trivial when its graph has a "
    "cycle, a repeated/visited/null collection element, a shared collection, or explicit seeds."
)
TRUSTED = [
    "Coq 8.16.1 kernel and vm_compute; theorems in Props/C15.v are closed under the global context",
    "hand-written model coq/Reach.v of Cas._find_all_fs (enqueue-once by identity, id assignment at pop, duplicate-id "
    "error, array/feature scanning, inline FSArray/FSList member scanning with a node set) and coq/ReachList.v of "
    "CasXmiSerializer._collect_list_elements (node set, ValueError on a repeated node) with the branches that call it",
    "models coq/TS.v (Type.descendants over the _children tables, Type.subsumes over the supertype attributes, invariant WFh) and "
    "coq/Merge.v (merge_typesystems) of C10 / C13: C15_subtype_walk_linear / C15_merged_subtype_walk_linear / C15_supertype_walk_ends / "
    "C15_merged_supertype_walk_ends are corollaries of their theorems; their correspondence is checked by C10 / C13",
    "hand-written model coq/ReachPrefix.v of the free-prefix search in CasXmiSerializer._serialize_feature_structure (xmi.py 596-613); "
    "str(int) is Coq's NilEmpty.string_of_uint o Nat.to_uint (injective, never empty: proved from the standard library)",
    "the schema (ancestors, effective features) is data here; that a TypeSystem answers like it is C10/C11",
    "harness/scen.py builders and harness/props/C15.py: build real objects, observe by identity, render cases",
    "wall-clock / CPU time is measured, not proved: the theorems bound loop iterations of the model (pops <= live objects, "
    "list walks <= live objects per feature); the deadline oracle measures the implementation",
    "ITIMER_VIRTUAL delivers SIGVTALRM to the Python main thread between bytecodes (per-operation CPU deadline on small graphs)",
]
ASSUMPTIONS = [
    "well-formed heaps: every value the scan considers is None or a live feature structure",
    "seed order is the observed View.get_all_annotations order (id()-dependent among ties) and is an input of the model",
]

T = scen.T
TOP, FS_ARRAY, FS_LIST, ANNOTATION = scen.TOP, scen.FS_ARRAY, scen.FS_LIST, scen.ANNOTATION
NE_LIST, E_LIST = T + "NonEmptyFSList", T + "EmptyFSList"


def _f(name, range_, elem=None, multi=None):
    return {"name": name, "range": range_, "elem": elem, "multi": multi}


G_TSPEC = [
    {"name": "g.Node", "super": TOP, "feats": [
        _f("a", "g.Node"), _f("b", "g.Node"), _f("top", TOP), _f("arr", FS_ARRAY, "g.Node"),
        _f("sarr", FS_ARRAY, "g.Node", True), _f("lst", FS_LIST), _f("slst", FS_LIST, None, True),
        _f("n", T + "Integer"), _f("ints", T + "IntegerArray"), _f("strs", T + "StringList", None, True),
        # lists of primitive values: written inside the element of the holder (no multipleReferencesAllowed) or shared
        _f("il", T + "IntegerList"), _f("fl", T + "FloatList"), _f("sl", T + "StringList", None, False),
        _f("sil", T + "IntegerList", None, True)]},
    {"name": "g.Sub", "super": "g.Node", "feats": [_f("c", "g.Node"), _f("farr", FS_ARRAY, None, False)]},
    {"name": "g.Ann", "super": ANNOTATION, "feats": [_f("ref", "g.Node"), _f("arr", FS_ARRAY), _f("lst", FS_LIST, None, False)]},
]


# ------------------------------------------------------------------------------------------------ scenario building


class B:
    """Accumulates a cspec."""

    def __init__(self, nviews=1):
        self.objs, self.members = [], []
        self.views = [{"name": "_InitialView" if i == 0 else "view%d" % i, "text": [97] * 12, "mime": None}
                      for i in range(nviews)]

    def new(self, type_, id=None, **slots):
        lab = len(self.objs) + 1
        self.objs.append({"o": lab, "type": type_, "id": id, "slots": {k: v for k, v in slots.items()}})
        return lab

    def node(self, id=None, type_="g.Node", **refs):
        return self.new(type_, id, **{k: ref(v) for k, v in refs.items()})

    def set(self, lab, **refs):
        self.objs[lab - 1]["slots"].update({k: ref(v) for k, v in refs.items()})

    def arr(self, elems, id=None):
        return self.new(FS_ARRAY, id, elements={"list": [ref(e) for e in elems]})

    def lst(self, heads, cyclic=False, cycle_to=0):
        """FSList nodes; returns (first node label, node labels)."""
        if not heads:
            e = self.new(E_LIST)
            return e, [e]
        nodes = [self.new(NE_LIST, None, head=ref(h)) for h in heads]
        for i in range(len(nodes) - 1):
            self.objs[nodes[i] - 1]["slots"]["tail"] = ref(nodes[i + 1])
        last = nodes[cycle_to] if cyclic else self.new(E_LIST)
        self.objs[nodes[-1] - 1]["slots"]["tail"] = ref(last)
        return nodes[0], nodes

    def plst(self, kind, n, cyclic=False, cycle_to=0):
        """n nodes of uima.cas.NonEmpty<kind>List (kind Integer | Float | String); the tail of the last node is an
        Empty<kind>List, or (cyclic) node number cycle_to.  Returns (first node label, node labels)."""
        if n == 0:
            e = self.new(T + "Empty%sList" % kind)
            return e, [e]
        nodes = [self.new(T + "NonEmpty%sList" % kind, None, head=PRIM_HEAD[kind](i)) for i in range(n)]
        for i in range(n - 1):
            self.objs[nodes[i] - 1]["slots"]["tail"] = ref(nodes[i + 1])
        last = nodes[cycle_to] if cyclic else self.new(T + "Empty%sList" % kind)
        self.objs[nodes[-1] - 1]["slots"]["tail"] = ref(last)
        return nodes[0], nodes

    def ann(self, view=0, b=0, e=0, **refs):
        lab = self.new("g.Ann", None, sofa={"sofa": self.views[view]["name"]}, begin={"i": b}, end={"i": e},
                       **{k: ref(v) for k, v in refs.items()})
        return lab

    def add(self, lab, view=0):
        self.members.append([view, lab])

    def cspec(self):
        return {"views": self.views, "objs": self.objs, "members": self.members}


def ref(x):
    return None if x is None else {"ref": x}


PRIM_HEAD = {"Integer": lambda i: {"i": 3 * i - 4}, "Float": lambda i: {"f": (i - 1.5).hex()}, "String": lambda i: {"s": "s%d" % i}}
PRIM_FEAT = {"Integer": "il", "Float": "fl", "String": "sl"}            # inline list features of g.Node
PRIM_SHARED = {"Integer": "sil", "String": "strs"}                     # with multipleReferencesAllowed


def sc_of(b, shape, inl=False, seeds=None, tspec=None):
    return {"kind": "graph", "shape": shape, "tspec": tspec if tspec is not None else G_TSPEC, "cspec": b.cspec(),
            "inl": bool(inl), "seeds": seeds}


def set_ids(sc, mode, rng):
    """mode: none | all | partial  (explicit ids start at 20 so they do not meet the generator's small ids by accident)"""
    objs = sc["cspec"]["objs"]
    if mode == "none":
        return sc
    ids = list(range(20, 20 + 3 * len(objs) + 5))
    rng.shuffle(ids)
    for o, i in zip(objs, ids):
        if o["id"] is None and (mode == "all" or rng.random() < 0.5):
            o["id"] = i
    return sc


def shapes(n):
    """Systematic shapes of size parameter n >= 1 (every one is a (name, B, seeds) triple; seeds None = indexed members)."""
    out = []
    # chain and cycle of references, entered at the first node
    b = B()
    nodes = [b.node() for _ in range(n)]
    for i in range(n - 1):
        b.set(nodes[i], a=nodes[i + 1])
    b.add(nodes[0])
    out.append(("chain", b, None))
    b = B()
    nodes = [b.node() for _ in range(n)]
    for i in range(n):
        b.set(nodes[i], a=nodes[(i + 1) % n], b=nodes[(i * 7 + 3) % n])
    b.add(nodes[n // 2])
    out.append(("cycle", b, None))
    # self references through every kind of feature
    b = B()
    for i in range(min(n, 4)):
        x = b.node()
        arr = b.arr([x, None, x])
        first, _ = b.lst([x, x, None])
        b.set(x, a=x, top=x, arr=arr, lst=first)
        b.add(x)
    out.append(("selfref", b, None))
    # diamond chain: level -> two children -> next level, and the next level twice in an inline array
    b = B()
    levels = [b.node() for _ in range(n + 1)]
    for i in range(n):
        x, y = b.node(a=levels[i + 1], b=levels[i + 1]), b.node(a=levels[i + 1], b=levels[i + 1])
        b.set(levels[i], a=x, b=y, arr=b.arr([levels[i + 1], levels[i + 1]]))
    b.add(levels[0])
    out.append(("diamond", b, None))
    # twin diamond (ReachCal.diamond): both references of a node go to the same next node
    b = B()
    nodes = [b.node() for _ in range(n + 1)]
    for i in range(n):
        b.set(nodes[i], a=nodes[i + 1], b=nodes[i + 1])
    b.add(nodes[0])
    out.append(("twin", b, None))
    # inline FSArray with repeated, already visited and null elements
    b = B()
    elems = [b.node() for _ in range(n)]
    for e in elems[: (n + 1) // 2]:
        b.add(e)
    owner = b.node(arr=b.arr([x for e in elems for x in (e, None, e)]))
    b.add(owner)
    out.append(("inline_array", b, None))
    # shared FSArray (multipleReferencesAllowed) held by several owners, also through a TOP feature
    b = B()
    elems = [b.node() for _ in range(n)]
    arr = b.arr(elems + [None] + elems[::-1])
    for k in range(3):
        b.add(b.node(sarr=arr, top=arr))
    out.append(("shared_array", b, None))
    # inline FSList with repeated, visited and null heads
    b = B()
    elems = [b.node() for _ in range(n)]
    for e in elems[: (n + 1) // 2]:
        b.add(e)
    first, _ = b.lst([x for e in elems for x in (e, e, None)])
    b.add(b.node(lst=first))
    out.append(("inline_list", b, None))
    # the head that was visited earlier comes first (the pre-fix walk did not advance on it)
    b = B()
    e = b.node()
    b.add(e)
    first, _ = b.lst([e] + [b.node() for _ in range(n)])
    b.add(b.node(lst=first))
    out.append(("inline_list_visited_head", b, None))
    # shared FSList held by several owners
    b = B()
    elems = [b.node() for _ in range(n)]
    first, nodes = b.lst([x for e in elems for x in (e, None, e)])
    for k in range(2):
        b.add(b.node(slst=first))
    b.add(b.node(slst=nodes[len(nodes) // 2]))
    out.append(("shared_list", b, None))
    # cyclic tail chains, inline and shared, closing at the first and at a middle node
    for name, feat in (("cyclic_inline_list", "lst"), ("cyclic_shared_list", "slst")):
        for cyc_to in (0, n // 2):
            b = B()
            elems = [b.node() for _ in range(n)]
            first, nodes = b.lst(elems + elems[:1], cyclic=True, cycle_to=min(cyc_to, n))
            b.add(b.node(**{feat: first}))
            out.append((name, b, None))
    # lists of primitive values (IntegerList / FloatList / StringList): the tail of a node is an ordinary reference, so
    # their nodes can form every shape the nodes of an FSList can.  Inline and shared, ending, with a missing tail, ...
    b = B()
    x = b.node()
    for kind in ("Integer", "Float", "String"):
        first, _ = b.plst(kind, n if kind != "Float" else n // 2)
        b.set(x, **{PRIM_FEAT[kind]: first})
    sfirst, snodes = b.plst("Integer", n + 1)
    b.set(x, sil=sfirst)
    b.add(x)
    b.add(b.node(sil=sfirst, top=snodes[n // 2], il=b.plst("Integer", 0)[0]))
    y = b.node(strs=b.plst("String", n)[0])
    _first, open_nodes = b.plst("String", n)
    del b.objs[open_nodes[-1] - 1]["slots"]["tail"]                    # the last node has no tail at all
    b.set(y, sl=open_nodes[0])
    b.add(y)
    out.append(("prim_lists", b, None))
    # ... and cyclic: the tail of the last node is the first node, a middle node or the last node itself
    for kind in ("Integer", "Float", "String"):
        for cyc_to in sorted({0, n // 2, n - 1}):
            b = B()
            first, nodes = b.plst(kind, n, cyclic=True, cycle_to=cyc_to)
            b.add(b.node(**{PRIM_FEAT[kind]: first}))
            out.append(("cyclic_inline_prim_list", b, None))
    for kind in ("Integer", "String"):
        b = B()
        first, nodes = b.plst(kind, n, cyclic=True, cycle_to=(n - 1) // 2)
        b.add(b.node(**{PRIM_SHARED[kind]: first}))
        b.add(b.node(**{PRIM_SHARED[kind]: nodes[-1]}, top=nodes[n // 2]))
        out.append(("cyclic_shared_prim_list", b, None))
    # the cyclic list is entered from a node outside the cycle's holder: an inline list hanging off a shared one
    b = B()
    first, nodes = b.plst("Integer", n, cyclic=True, cycle_to=0)
    b.add(b.node(sil=first))
    b.add(b.node(il=nodes[n // 2]))
    out.append(("cyclic_inline_prim_list", b, None))
    # collections inside annotations, in two views; a TOP feature holding a list node and an array
    b = B(nviews=2)
    hub = b.node()
    arr = b.arr([hub, hub])
    first, _ = b.lst([hub, None])
    b.set(hub, top=arr)
    for i in range(min(n, 5)):
        a = b.ann(view=i % 2, b=i % 3, e=3 + i % 2, ref=hub, arr=arr, lst=first)
        b.add(a, i % 2)
    x = b.node(top=first, type_="g.Sub", c=hub, farr=arr)
    b.add(x, 0)
    b.add(x, 1)
    out.append(("annotations", b, None))
    # explicit seeds: nothing indexed, seeds given (with a repetition), one indexed structure that is not a seed
    b = B()
    nodes = [b.node() for _ in range(n + 2)]
    for i in range(n + 1):
        b.set(nodes[i], a=nodes[i + 1])
    b.add(nodes[0])
    out.append(("seeds", b, [nodes[n // 2 + 1], nodes[-1], nodes[n // 2 + 1]]))
    out.append(("seeds_empty", b, []))
    # cas:NULL (id 0) in the middle of a chain: neither returned nor expanded
    b = B()
    tail = b.node()
    null = b.node(id=0, a=tail)
    head = b.node(a=null, arr=b.arr([null, tail] if n % 2 else [null]))
    b.add(head)
    out.append(("null_id", b, None))
    # forced duplicate ids: two reachable structures under one id
    b = B()
    x, y = b.node(id=77), b.node(id=77)
    mid = [b.node() for _ in range(n)]
    for i in range(n - 1):
        b.set(mid[i], a=mid[i + 1])
    b.set(mid[-1], a=y)
    b.add(b.node(a=x, b=mid[0]))
    out.append(("forced_duplicate", b, None))
    # the duplicate is only reachable, not indexed, and sits inside an inline list
    b = B()
    x, y = b.node(id=55), b.node(id=55)
    first, _ = b.lst([y, y])
    b.add(x)
    b.add(b.node(lst=first))
    out.append(("forced_duplicate_in_list", b, None))
    # instances of uima.cas.TOP itself (no supertype: D57, repaired by 2a93760): indexed, and reachable only through a
    # TOP-ranged feature, an array, an inline and a shared list
    b = B()
    tops = [b.new(TOP) for _ in range(min(n, 3) + 4)]
    b.add(tops[0])
    first, _ = b.lst([tops[2], None, tops[2]])
    sfirst, _ = b.lst([tops[3]])
    b.add(b.node(top=tops[1], arr=b.arr([tops[4], tops[0]]), lst=first, slst=sfirst))
    for t in tops[5:]:
        b.add(b.node(top=t))
    out.append(("top_instance", b, None))
    b = B()
    t = b.new(TOP)
    out.append(("top_instance_seed", b, [t]))
    # same id on an unreachable structure: no error
    b = B()
    x, y = b.node(id=66), b.node(id=66)
    b.add(x)
    out.append(("duplicate_unreachable", b, None))
    return out


def shapes_nested(n):
    """Collections whose elements are collections again (an FSArray holds uima.cas.TOP, so another FSArray or a list node is
    as good an element as any other structure): every shape a reference graph can have - chain, diamond, cycle, self
    containment - built from FSArrays that are reachable ONLY through FSArrays, entered through a TOP-ranged reference,
    an inline FSArray feature of a subtype / of an annotation, or an index; and the same through both kinds of collection."""
    out = []

    def holders(b, first, how):
        if how == "top":                       # a reference: the outermost array is a feature value
            b.add(b.node(top=first))
        elif how == "farr":                    # FSArray feature without multipleReferencesAllowed (elements of anything)
            b.add(b.node(type_="g.Sub", farr=first))
        elif how == "ann":                     # the same on an annotation, and a second holder entering one level deeper
            b.add(b.ann(b=1, e=3, arr=first))
        else:                                  # the outermost array is indexed itself
            b.add(first)

    for how in ("top", "farr", "ann", "indexed"):
        # chain / diamond: every array holds the next one twice and a null; the innermost holds a node twice
        b = B()
        leaf = b.node()
        arrays = [b.arr([]) for _ in range(n + 1)]
        for i in range(n):
            b.objs[arrays[i] - 1]["slots"]["elements"] = {"list": [ref(arrays[i + 1]), None, ref(arrays[i + 1])]}
        b.objs[arrays[n] - 1]["slots"]["elements"] = {"list": [ref(leaf), ref(leaf)]}
        holders(b, arrays[0], how)
        out.append(("nested_arrays", b, None))
        # cycles among arrays that only arrays lead to: the innermost array leads back to the second, the first and itself
        b = B()
        arrays = [b.arr([]) for _ in range(n + 2)]
        for i in range(n + 1):
            b.objs[arrays[i] - 1]["slots"]["elements"] = {"list": [ref(arrays[i + 1]), None, ref(arrays[i + 1])][: 1 + 2 * (i % 2 == 0)]}
        b.objs[arrays[n + 1] - 1]["slots"]["elements"] = {"list": [ref(arrays[1]), ref(arrays[0]), None, ref(arrays[n + 1])]}
        holders(b, arrays[0], how)
        out.append(("nested_array_cycle", b, None))
    # two arrays containing each other, nothing else; one of them is a seed
    b = B()
    x, y = b.arr([]), b.arr([])
    b.objs[x - 1]["slots"]["elements"] = {"list": [ref(y), ref(y)]}
    b.objs[y - 1]["slots"]["elements"] = {"list": [ref(x), ref(y), None]}
    b.add(b.node(top=b.arr([x])))
    out.append(("nested_array_cycle", b, None))
    out.append(("nested_array_cycle", b, [x]))
    # both kinds of collection inside each other: an array of list nodes whose heads are arrays of list nodes ..., the
    # innermost array leading back to the outermost array and to the first list; lists (inline and shared) of arrays
    b = B()
    leaf = b.node()
    inner = b.arr([leaf, None, leaf])
    first_inner = inner
    firsts = []
    for i in range(n):
        first, nodes = b.lst([inner, None, inner])
        firsts.append(first)
        inner = b.arr([first, nodes[-1], inner, first])
    b.objs[first_inner - 1]["slots"]["elements"]["list"] += [ref(inner), ref(firsts[0])]
    lfirst, _ = b.lst([inner, first_inner, inner])
    sfirst, _ = b.lst([first_inner, inner])
    b.add(b.node(top=inner, lst=lfirst, slst=sfirst))
    b.add(b.node(type_="g.Sub", farr=b.arr([inner, inner, firsts[-1]])))
    out.append(("nested_collections", b, None))
    return out


def random_graph(rng, n, nested=False):
    b = B(nviews=rng.choice([1, 1, 2]))
    nodes = []
    for i in range(n):
        k = rng.random()
        if k < 0.62:
            nodes.append(b.node(type_=rng.choice(["g.Node", "g.Node", "g.Sub"])))
        elif k < 0.7:
            nodes.append(b.new(TOP))
        else:
            v = rng.randrange(len(b.views))
            bg = rng.randint(0, 6)
            nodes.append(b.ann(view=v, b=bg, e=rng.randint(bg, 8)))
    colls = {"arr": [], "lst": [], "Integer": [], "Float": [], "String": []}

    def pick():
        if nested and rng.random() < 0.35 and (colls["arr"] or colls["lst"]):
            return rng.choice(colls["arr"] + colls["lst"])          # a collection as an element of a collection
        return None if rng.random() < 0.15 else rng.choice(nodes)

    def some(k):
        base = [pick() for _ in range(rng.choice([0, 1, 2, 3, 5]))]
        return base + ([rng.choice(base)] * 2 if base and rng.random() < 0.4 else [])

    def new_arr():
        a = b.arr(some(3))
        colls["arr"].append(a)
        return a

    def new_lst():
        heads = some(3)
        first, ns = b.lst(heads, cyclic=bool(heads) and rng.random() < 0.2, cycle_to=rng.randrange(max(1, len(heads))))
        colls["lst"].extend(ns)
        return first

    def new_plst(kind):
        n = rng.choice([0, 1, 2, 3, 5])
        first, ns = b.plst(kind, n, cyclic=bool(n) and rng.random() < 0.3, cycle_to=rng.randrange(max(1, n)))
        colls[kind].extend(ns)
        return first

    prim_feats = {"il": ("Integer", False), "fl": ("Float", False), "sl": ("String", False), "sil": ("Integer", True),
                  "strs": ("String", True)}
    for lab in nodes:
        o = b.objs[lab - 1]
        t = o["type"]
        feats = {"g.Node": ["a", "b", "top", "arr", "sarr", "lst", "slst"] + list(prim_feats),
                 "g.Sub": ["a", "b", "top", "arr", "sarr", "lst", "slst", "c", "farr"] + list(prim_feats),
                 "g.Ann": ["ref", "arr", "lst"], TOP: []}[t]
        for fn in feats:
            if rng.random() < (0.8 if fn in prim_feats else 0.45):
                continue
            if fn in prim_feats:
                kind, shared = prim_feats[fn]
                reuse = colls[kind] and rng.random() < (0.5 if shared else 0.15)
                o["slots"][fn] = ref(rng.choice(colls[kind]) if reuse else new_plst(kind))
                continue
            if fn in ("a", "b", "c", "ref"):
                cands = [x for x in nodes if b.objs[x - 1]["type"] in ("g.Node", "g.Sub")]
                if cands:
                    o["slots"][fn] = ref(rng.choice(cands))
            elif fn == "top":
                pool = nodes + colls["arr"] + colls["lst"] + colls["Integer"] + colls["String"]
                o["slots"][fn] = ref(rng.choice(pool))
            elif fn in ("arr", "sarr", "farr"):
                reuse = colls["arr"] and rng.random() < (0.5 if fn == "sarr" else 0.15)
                o["slots"][fn] = ref(rng.choice(colls["arr"]) if reuse else new_arr())
            else:
                reuse = colls["lst"] and rng.random() < (0.5 if fn == "slst" else 0.15)
                o["slots"][fn] = ref(rng.choice(colls["lst"]) if reuse else new_lst())
    if nested:
        # arrays are made one after the other, so far an array can only hold older collections: let some also hold
        # younger arrays, each other and themselves (cycles that lead through arrays only)
        for a in colls["arr"]:
            if rng.random() < 0.6:
                more = [rng.choice(colls["arr"]) for _ in range(rng.choice([1, 1, 2, 3]))]
                els = b.objs[a - 1]["slots"]["elements"]["list"]
                for m in more + ([more[0]] if rng.random() < 0.5 else []):
                    els.insert(rng.randint(0, len(els)), ref(m))
    for lab in nodes:
        if rng.random() < 0.4:
            o = b.objs[lab - 1]
            if o["type"] == "g.Ann":
                v = [i for i, vw in enumerate(b.views) if vw["name"] == o["slots"]["sofa"]["sofa"]][0]
                b.add(lab, v)
            else:
                for v in rng.sample(range(len(b.views)), rng.randint(1, len(b.views))):
                    b.add(lab, v)
    if not b.members:
        lab = nodes[0]
        o = b.objs[lab - 1]
        v = 0 if o["type"] != "g.Ann" else [i for i, vw in enumerate(b.views) if vw["name"] == o["slots"]["sofa"]["sofa"]][0]
        b.add(lab, v)
    seeds = None
    if rng.random() < 0.25:
        pool = [o["o"] for o in b.objs]
        seeds = [rng.choice(pool) for _ in range(rng.randint(0, 4))]
    sc = sc_of(b, "random_nested" if nested else "random", rng.random() < 0.5, seeds)
    set_ids(sc, rng.choice(["none", "all", "partial", "partial"]), rng)
    r = rng.random()
    objs = sc["cspec"]["objs"]
    if r < 0.08:
        rng.choice(objs)["id"] = 0
    elif r < 0.2 and len(objs) >= 2:
        x, y = rng.sample(objs, 2)
        x["id"] = y["id"] = rng.choice([3, 31, 77])
    return sc


# ------------------------------------------------------------------------------------------------ types in several packages
# A reference graph is a graph of feature structures of SOME type system; the shapes above all live in the one package `g`.
# The XMI writer keeps a table of namespace prefixes (one per package, named after the last component of the package) and
# searches a free prefix in a `while` loop when two packages end in the same component or in a prefix it reserves itself
# (cas, xmi): that loop has to end whatever the packages are called and in whatever order their structures are written.
PKG_FAMILIES = [["p.v1.type", "p.v2.type", "p.type0", "p.type1", "p.v3.type"],       # equal last components and numbered ones
                ["q.cas", "q.cas0", "q.xmi", "q.xmi0", "r.cas"]]                       # prefixes the writer reserves


def pkg_tspec(pkgs):
    """one type <package>.N per package (equal short names), every one with a reference, an inline array and a shared list"""
    return [{"name": p + ".N", "super": TOP, "feats": [_f("next", TOP), _f("arr", FS_ARRAY), _f("lst", FS_LIST, None, True)]}
            for p in pkgs]


ALL_PKGS = PKG_FAMILIES[0] + PKG_FAMILIES[1]
P_TSPEC = pkg_tspec(ALL_PKGS)          # one type system with all the packages; a case uses the types of some of them
P_OBJ_TYPES = [p + ".N" for p in ALL_PKGS] + [FS_ARRAY, NE_LIST, E_LIST]


def package_graph(pkgs, shape_no, explicit_ids):
    """A small graph with one structure per package; with explicit ids the structures are written in the order of pkgs."""
    b = B()
    nodes = [b.new(p + ".N", (20 + i) if explicit_ids else None) for i, p in enumerate(pkgs)]
    k = len(nodes)
    if shape_no % 4 == 0:                                   # cycle of references
        for i, x in enumerate(nodes):
            b.set(x, next=nodes[(i + 1) % k])
    elif shape_no % 4 == 1:                                 # chain, the last one holds all of them twice in an array
        for i, x in enumerate(nodes[:-1]):
            b.set(x, next=nodes[i + 1])
        b.set(nodes[-1], arr=b.arr(nodes + [None] + nodes))
    elif shape_no % 4 == 2:                                 # self references and a shared list of all
        first, _ = b.lst(nodes + nodes[:1])
        for x in nodes:
            b.set(x, next=x, lst=first)
    else:                                                   # diamond: the first refers to all others, all refer to the last
        b.set(nodes[0], arr=b.arr(nodes[1:] + nodes[1:]))
        for x in nodes[1:-1]:
            b.set(x, next=nodes[-1])
        b.set(nodes[-1], next=nodes[0])
    for x in (nodes if shape_no % 3 else nodes[:1]):        # all indexed, or only the first (the others are reached)
        b.add(x)
    return b


def package_scenarios(rng, tier):
    from itertools import permutations
    no = 0
    for fam in PKG_FAMILIES:
        for k in (2, 3):
            perms = list(permutations(fam, k))
            if tier == "quick" and k == 3:                  # quick: every ordered pair, and a third of the ordered triples
                perms = [p for i, p in enumerate(perms) if i % 3 == rng.randrange(3)]
            for pkgs in perms:
                no += 1
                b = package_graph(list(pkgs), no, explicit_ids=no % 5 != 0)
                yield sc_of(b, "packages", inl=bool(no % 2), tspec=P_TSPEC)
    for r in range({"quick": 20, "thorough": 200}[tier]):   # more packages at once, random order
        pkgs = rng.sample(PKG_FAMILIES[0] + PKG_FAMILIES[1], rng.choice([4, 5, 7]))
        no += 1
        yield sc_of(package_graph(pkgs, no, explicit_ids=rng.random() < 0.8), "packages", inl=bool(no % 2), tspec=P_TSPEC)


def generate(rng, tier):
    sizes = {"quick": [1, 2, 3, 6], "thorough": [1, 2, 3, 4, 6, 9, 14, 40], "search": [2, 5, 9]}[tier]
    if tier != "search":
        for n in sizes:
            for name, b, seeds in shapes(n):
                for inl in (False, True):
                    for mode in ("none", "all", "partial"):
                        if mode == "partial" and n > 3 and tier == "quick":
                            continue
                        sc = sc_of(b, name, inl, seeds)
                        sc = json.loads(json.dumps(sc))
                        yield set_ids(sc, mode, rng)
    n_rand = {"quick": 260, "thorough": 2500, "search": 1500}[tier]
    for r in range(n_rand):
        yield random_graph(rng, rng.choice([1, 2, 3, 4, 6, 8, 12] + ([25] if tier == "thorough" else [])))
    # breadth: CASes of the shared generator over random type systems
    n_scen = {"quick": 120, "thorough": 800, "search": 300}[tier]
    cassis = _CASSIS.get("m")
    for r in range(n_scen):
        tspec = scen.gen_tspec(rng, n_types=rng.randint(2, 6), max_feats=4, awkward=False)
        cspec = scen.gen_cspec(rng, cassis, tspec, n_objs=(1, 8), all_ids=rng.random() < 0.5)
        seeds = None
        if rng.random() < 0.15:
            seeds = [rng.choice(cspec["objs"])["o"] for _ in range(rng.randint(1, 3))]
        yield {"kind": "graph", "shape": "gen_cspec", "tspec": tspec, "cspec": cspec, "inl": rng.random() < 0.5, "seeds": seeds}
    # collections inside collections (third wave).  Generated last, so that every case above is what it was before.
    if tier != "search":
        for n in {"quick": [1, 2, 5], "thorough": [1, 2, 3, 5, 9, 30]}[tier]:
            for name, b, seeds in shapes_nested(n):
                for inl in (False, True):
                    for mode in ("none", "partial") if n != 2 else ("none", "all", "partial"):
                        sc = json.loads(json.dumps(sc_of(b, name, inl, seeds)))
                        yield set_ids(sc, mode, rng)
    for r in range({"quick": 120, "thorough": 1200, "search": 700}[tier]):
        yield random_graph(rng, rng.choice([1, 2, 3, 4, 6, 8, 12]), nested=True)
    # type trees built through every route (create_type, XML, merge of versions, JSON with an embedded type system)
    yield from tree_scenarios(rng, tier)
    # fourth wave.  Generated last, so that every case above is what it was before.
    if tier != "search":
        # "dozens of levels deep" also in the quick tier: arrays nested 24 deep (a walk that enumerates paths instead of
        # arrays takes 2^24 steps there and runs into the CPU deadline; thorough has depth 30 among the shapes above)
        if tier == "quick":
            for name, b, seeds in shapes_nested(24):
                for inl in (False, True):
                    yield json.loads(json.dumps(sc_of(b, name, inl, seeds)))
        # the same reference graphs over type systems whose types live in several packages
        yield from package_scenarios(rng, tier)
    for r in range({"quick": 40, "thorough": 400, "search": 300}[tier]):
        # every type of the shared generator's pool (C15 used to stop at six of its eight names)
        tspec = scen.gen_tspec(rng, n_types=rng.choice([7, 8, 8]), max_feats=3, awkward=False)
        cspec = scen.gen_cspec(rng, cassis, tspec, n_objs=(4, 12), all_ids=rng.random() < 0.5)
        yield {"kind": "graph", "shape": "gen_cspec_all_packages", "tspec": tspec, "cspec": cspec, "inl": rng.random() < 0.5,
               "seeds": None}
    # type trees declared in contradictory directions by the versions that are merged
    yield from contradictory_tree_scenarios(rng, tier)


# ------------------------------------------------------------------------------------------------ type trees (small scope)
# "type trees dozens of levels deep": a type tree comes into being through create_type, through load_typesystem and
# through merge_typesystems (also inside load_cas_from_json with an embedded type system), which re-parents a type when a
# later version names a more specific supertype.  Whatever the route, the queries that walk the subtypes of a type
# (select, select_covered, create_feature all iterate over Type.descendants) must do work bounded by the number of
# types.  Work is counted in steps here (types handed out by the walk), the deadline oracle measures seconds at depth 10-40.

TREE_ROOT = "uima.tcas.Annotation"
WALK_CUT = 40                                            # the walk is cut after WALK_CUT * (number of types) + 200 steps


def _contract(rng, parent, keep_prob):
    """A version of the tree `parent` (name -> supertype name, in creation order) that leaves out some types: the
    children of a type that is left out hang under its nearest kept ancestor (a coarser version of the same tree)."""
    kept = [t for t in parent if rng.random() < keep_prob]

    def up(t):
        p = parent[t]
        while p in parent and p not in kept:
            p = parent[p]
        return p
    return [[t, up(t)] for t in kept]


def tree_scenarios(rng, tier):
    def sc_of_versions(shape, versions, stages):
        return {"kind": "tree", "shape": shape, "versions": versions, "stages": stages}
    depths = {"quick": [1, 2, 3, 5, 8], "thorough": [1, 2, 3, 4, 5, 8, 12], "search": [2, 4]}[tier]
    for d in depths:
        coarse = [["t.T0", TREE_ROOT]] + [["t.T%d" % (i + 1), "t.T%d" % i] for i in range(d)]
        fine = [["t.T0", TREE_ROOT]]
        for i in range(d):
            fine += [["t.X%d" % i, "t.T%d" % i], ["t.T%d" % (i + 1), "t.X%d" % i]]
        every_other = [["t.T0", TREE_ROOT]] + [["t.T%d" % i, "t.T%d" % (i - 2 if i % 2 == 0 else i - 1)] for i in range(1, d + 1)
                                               if i % 2 == 0 or i == d]
        for name, versions in (("refined", [coarse, fine]), ("coarsened", [fine, coarse]), ("refined_twice", [every_other, coarse, fine]),
                               ("same", [fine, fine]), ("single", [fine])):
            for stages in (["merge_all"], ["merge_fold", "xml", "merge_all"], ["json_embedded"]):
                yield sc_of_versions("tree_" + name, versions, stages)
    for r in range({"quick": 60, "thorough": 500, "search": 300}[tier]):
        k = rng.choice([2, 3, 4, 6, 9, 14])
        parent = {}
        for i in range(k):
            parent["t.R%d" % i] = TREE_ROOT if i == 0 or rng.random() < 0.1 else "t.R%d" % rng.randrange(max(0, i - 3), i)
        versions = [_contract(rng, parent, rng.choice([0.5, 0.7, 0.9, 1.0])) for _ in range(rng.choice([2, 2, 3, 4]))]
        versions = [v for v in versions if v] or [[[t, p] for t, p in parent.items()]]
        yield sc_of_versions("tree_random", versions, rng.choice([["merge_all"], ["merge_fold"], ["merge_fold", "xml", "merge_all"],
                                                                  ["merge_all", "json_embedded"], ["json_embedded"]]))


def contradictory_tree_scenarios(rng, tier):
    """Versions that are NOT coarser / finer views of one tree: a type lies above another type in one version and below it
    in another, directly or only through the declarations of a third version.  Whether merge_typesystems refuses them is
    C13's business; this property says that whatever it hands out is a tree again: every supertype chain ends after at
    most as many steps as there are types, and the queries come back."""
    def sc_of_versions(shape, versions, stages):
        return {"kind": "tree", "shape": shape, "versions": versions, "stages": stages, "queries": True}
    all_stages = (["merge_all"], ["merge_fold"], ["json_embedded"])
    for d in {"quick": [1, 2, 3, 8, 30], "thorough": [1, 2, 3, 4, 5, 8, 12, 30, 60], "search": [2, 4]}[tier]:
        chain = [["t.T0", TREE_ROOT]] + [["t.T%d" % (i + 1), "t.T%d" % i] for i in range(d)]
        back = [["t.T%d" % d, TREE_ROOT], ["t.T0", "t.T%d" % d]]              # the root of the chain below its deepest type
        rev = [["t.T%d" % d, TREE_ROOT]] + [["t.T%d" % i, "t.T%d" % (i + 1)] for i in range(d - 1, -1, -1)]
        fine = [["t.T0", TREE_ROOT]]
        for i in range(d):
            fine += [["t.X%d" % i, "t.T%d" % i], ["t.T%d" % (i + 1), "t.X%d" % i]]
        # one edge per version, closing a ring only when all versions are put together
        ring = [[["t.T%d" % i, TREE_ROOT], ["t.T%d" % ((i + 1) % (d + 2)), "t.T%d" % i]] for i in range(d + 2)]
        families = [("back", [chain, back]), ("back_first", [back, chain]), ("reversed", [chain, rev]),
                    ("refined_back", [chain, fine, back]), ("ring", ring), ("ring_shuffled", rng.sample(ring, len(ring)))]
        for name, versions in families:
            if d >= 30 and name.startswith("ring"):
                continue
            for stages in all_stages if d <= 8 else all_stages[:1]:
                yield sc_of_versions("contradictory_" + name, versions, stages)
    for r in range({"quick": 60, "thorough": 500, "search": 300}[tier]):
        # independent random trees over one pool of names
        names = ["t.R%d" % i for i in range(rng.choice([2, 3, 4, 6, 9]))]
        versions = []
        for _v in range(rng.choice([2, 2, 3, 4])):
            order = rng.sample(names, rng.randint(1, len(names)))
            versions.append([[t, TREE_ROOT if i == 0 or rng.random() < 0.25 else order[rng.randrange(i)]] for i, t in enumerate(order)])
        yield sc_of_versions("contradictory_random", versions, rng.choice(all_stages + (["merge_fold", "xml", "merge_all"],)))


def _walk_counts(ts, names):
    """for every named type: [types handed out by the walk over its subtypes (cut), distinct ones among them]"""
    from itertools import islice
    n_types = sum(1 for _ in ts.get_types())
    cut = WALK_CUT * n_types + 200
    out = {}
    for nm in names:
        if not ts.contains_type(nm):
            continue
        try:
            walked = [t.name for t in islice(ts.get_type(nm).descendants, cut)]
        except RecursionError:                        # a walk that nests deeper than any tree of this size is deep
            walked = [nm] * cut
        out[nm] = [len(walked), len(set(walked))]
    return n_types, out


def _chain_steps(ts, names):
    """for every named type: [steps of its supertype chain (cut one step after the number of types), did it end]"""
    n_types = sum(1 for _ in ts.get_types(built_in=True))
    out = {}
    for nm in names:
        if not ts.contains_type(nm):
            continue
        cur, steps = ts.get_type(nm), 0
        while cur is not None and steps <= n_types:
            cur, steps = cur.supertype, steps + 1
        out[nm] = [steps, cur is None]
    return n_types, out


TREE_QUERIES = ["subsumes", "is_instance_of", "typecheck", "to_xmi", "to_json"]


def _tree_queries(cassis, ts, cas, names):
    """{query: kind} - the hierarchy queries between all pairs of named types (and against types outside the tree, where
    the walk up has to run to the end of the chain) and the operations that use them, each under the CPU deadline"""
    present = [n for n in names if ts.contains_type(n)]
    outside = ["uima.cas.Sofa", "uima.cas.FSArray", TOP]

    def subsumes():
        return sum(ts.subsumes(a, b) for a in present + outside for b in present)

    def is_instance_of():
        return sum(ts.is_instance_of(b, a) for a in present + outside for b in present)
    fns = {"subsumes": subsumes, "is_instance_of": is_instance_of, "typecheck": cas.typecheck, "to_xmi": cas.to_xmi,
           "to_json": cas.to_json}
    cap = OP_CPU_CAP_S if _STATE["op_deadlines"] < 3 else OP_CPU_CAP_AFTER_3_S
    out = {}
    for q in TREE_QUERIES:
        out[q] = _bounded(cap, fns[q])[0]
        if out[q] == "deadline":
            _STATE["op_deadlines"] += 1
    return out


def _run_tree(cassis, sc):
    """Builds every version with create_type, then goes through the stages on the SAME objects; after every stage that
    yields a type system: the walk counts of every type, and select / select_covered on a CAS over it under a CPU deadline."""
    def build(version):
        ts = cassis.TypeSystem()
        for name, sup in version:
            ts.create_type(name, sup)
        return ts
    names = sorted({t for v in sc["versions"] for t, _p in v})
    tss = [build(v) for v in sc["versions"]]
    obs = {"stages": []}
    current = None

    def look(stage, ts):
        n_types, walks = _walk_counts(ts, names)
        cas = cassis.Cas(typesystem=ts)
        cas.sofa_string = "x" * 20
        for i, nm in enumerate(n for n in names if ts.contains_type(n)):
            cas.add(ts.get_type(nm)(begin=i % 7, end=i % 7 + 3))

        def query():
            k = 0
            for nm in names:
                if ts.contains_type(nm):
                    found = list(cas.select(nm))
                    k += len(found) + sum(len(list(cas.select_covered(nm, a))) for a in found[:2])
            return k
        kind, _r = _bounded(OP_CPU_CAP_S, query)
        st = {"stage": stage, "types": n_types, "walks": walks, "select": kind}
        if sc.get("queries"):
            st["all_types"], st["chains"] = _chain_steps(ts, names)
            st["queries"] = _tree_queries(cassis, ts, cas, names)
        obs["stages"].append(st)

    def do(stage):
        nonlocal current, tss
        if stage == "merge_all":
            current = cassis.merge_typesystems(*tss)
        elif stage == "merge_fold":
            current = tss[0]
            for t in tss[1:]:
                current = cassis.merge_typesystems(current, t)
        elif stage == "xml":                       # the merged tree written and read back, then merged with the versions again
            current = cassis.load_typesystem((current or tss[0]).to_xml())
            tss = [current] + tss
        elif stage == "json_embedded":             # a document carrying the last version is loaded into a CAS typed by the first
            doc = cassis.Cas(typesystem=tss[-1]).to_json()
            current = cassis.load_cas_from_json(doc, typesystem=current or tss[0]).typesystem

    for stage in sc["stages"]:
        if sc.get("queries"):                          # the stage itself walks the hierarchy it is building: CPU deadline
            cap = OP_CPU_CAP_S if _STATE["op_deadlines"] < 3 else OP_CPU_CAP_AFTER_3_S
            kind, _r = _bounded(4 * cap, lambda: do(stage))
            _STATE["op_deadlines"] += kind == "deadline"
            if kind == "ValueError":
                obs["stages"].append({"stage": stage, "refused": True})
                break
            if kind != "ok":
                obs["stages"].append({"stage": stage, "stage_failed": kind})
                break
        else:
            try:
                do(stage)
            except ValueError:                         # merge refused: which merges are legal is C13, not this property
                obs["stages"].append({"stage": stage, "refused": True})
                break
        look(stage, current)
    return obs


def tree_oracle(sc, obs):
    for st in obs["stages"]:
        if st.get("refused"):
            continue
        if st.get("stage_failed") in NOT_BACK:
            return (f"stage {st['stage']} (merging / loading {len(sc['versions'])} versions of a type tree) did not come back "
                    f"({st['stage_failed']}; CPU cap {4 * OP_CPU_CAP_S} s)")
        if "stage_failed" in st:                       # any other exception: not this property's business
            continue
        for nm, (steps, ended) in sorted((st.get("chains") or {}).items()):
            if not ended or steps > st["all_types"]:
                return (f"the supertype chain of {nm} after stage {st['stage']} does not end within {st['all_types']} steps (the "
                        f"type system has {st['all_types']} types): every walk up the hierarchy loops")
        for q in TREE_QUERIES:
            if (st.get("queries") or {}).get(q) in NOT_BACK:
                return (f"{q} did not come back ({st['queries'][q]}; CPU cap {OP_CPU_CAP_S} s) on a type system of {st['types']} "
                        f"types after stage {st['stage']}")
        if st["select"] in NOT_BACK:
            return (f"select / select_covered did not come back ({st['select']}; CPU cap {OP_CPU_CAP_S} s) on a type system of "
                    f"{st['types']} types after stage {st['stage']}")
        for nm, (walked, distinct) in sorted(st["walks"].items()):
            if walked > distinct or walked > st["types"]:
                return (f"walking the subtypes of {nm} after stage {st['stage']} hands out {walked} types, only {distinct} distinct "
                        f"(the type system has {st['types']}): the work of select grows with the number of paths, not of types")
    return None


class _Lazy(dict):
    """The cassis module the engine loaded (core.load_impl is called by the engine before generate)."""

    def get(self, k, d=None):
        if k not in self:
            self[k] = sys.modules.get("cassis") or core.load_impl()
        return self[k]


_CASSIS = _Lazy()


# ------------------------------------------------------------------------------------------------ implementation side


def _errkind(e):
    n = type(e).__name__
    return {"ValueError": "EDupId", "AttributeError": "EAttribute", "TypeNotFoundError": "ETypeNotFound",
            "KeyError": "EKey", "TypeError": "EType", "RuntimeError": "ERuntime", "IndexError": "EIndex"}.get(n, n)


def _probe_next(cas, ts, tspec):
    """The id the generator hands out next, observed through the public API: add a fresh id-less structure."""
    t = ts.get_type(tspec[0]["name"])
    p = t()
    cas.add(p)
    return p.xmiID


_STATE = {"running": False, "hung": 0, "shrinks": 0, "op_deadlines": 0}

# The operations of the property on every small graph: each under its own CPU-time deadline (ITIMER_VIRTUAL, so that
# neither machine load nor the engine's wall-clock alarm interferes).  The graphs have at most a few hundred feature
# structures and every operation takes milliseconds; a deadline hit is a loop that does not end.
OP_CPU_CAP_S = 2.0
OP_CPU_CAP_AFTER_3_S = 0.3           # the tree under test loops: do not spend 2 s on every further case
SMALL_OPS = ["to_xmi", "to_json", "typecheck", "load_cas_from_xmi", "load_cas_from_json",
             "cas_to_comparable_text", "cas_to_comparable_text_args"]
NOT_BACK = ("deadline", "MemoryError", "RecursionError")


class OpDeadline(BaseException):
    pass


def _on_vtalrm(signum, frame):
    raise OpDeadline()


def _bounded(seconds, fn):
    """(kind, result): kind 'ok' | exception class name | 'deadline'."""
    old = signal.signal(signal.SIGVTALRM, _on_vtalrm)
    try:
        try:
            signal.setitimer(signal.ITIMER_VIRTUAL, seconds)
            r = fn()
            signal.setitimer(signal.ITIMER_VIRTUAL, 0)
            return "ok", r
        finally:
            signal.setitimer(signal.ITIMER_VIRTUAL, 0)
    except OpDeadline:
        return "deadline", None
    except Exception as e:  # noqa: the operation came back with an error
        return type(e).__name__, None
    finally:
        signal.signal(signal.SIGVTALRM, old)


def _is_collection_type(name):
    return name.startswith(T) and (name.endswith("Array") or name.endswith("List"))


def comparable_text_arguments(sc, objs):
    """The optional arguments cas_to_comparable_text is called with on every graph (the operation is `the listing of
    this graph under these arguments`; a graph shape on which one of them loops is a shape on which the operation does
    not terminate).  From the scenario: leaving out the collection types (all at once and one type at a time), leaving
    out everything but the collections without index marks and covered text, explicit seeds."""
    types = sorted({o["type"] for o in sc["cspec"]["objs"]})
    colls = [t for t in types if _is_collection_type(t)]
    labels = sc["seeds"] if sc["seeds"] is not None else [o["o"] for o in sc["cspec"]["objs"]][::2]
    seeds = [objs[l] for l in labels]
    out = [{"exclude_types": set(colls) | {FS_ARRAY}},
           {"exclude_types": {t for t in types if t not in colls}, "mark_indexed": False, "covered_text": False},
           {"seeds": seeds, "exclude_types": {FS_ARRAY, NE_LIST}},
           {"seeds": seeds, "mark_indexed": False}]
    out += [{"exclude_types": {t}} for t in types[:12]]
    return out


XMI_URL, CAS_URL = "http://www.omg.org/XMI", "http:///uima/cas.ecore"


def observe_namespaces(doc):
    """From the XMI document alone: the packages of the feature-structure elements in the order in which they are first
    met ([raw prefix = last component of the package, namespace url]) and the prefix the document uses for every
    namespace that is not one of the writer's own two ([prefix, url])."""
    from lxml import etree
    root = etree.fromstring(doc.encode("utf-8"))
    seq, decl, seen = [], [], set()
    for ch in root:
        q = etree.QName(ch)
        if q.namespace == CAS_URL and q.localname in ("NULL", "Sofa", "View"):
            continue                                        # written with the reserved prefix, not through the table
        url = q.namespace
        if url in seen or not (url or "").startswith("http:///") or not url.endswith(".ecore"):
            continue
        seen.add(url)
        seq.append([url[len("http:///"):-len(".ecore")].split("/")[-1], url])
        if url not in (XMI_URL, CAS_URL):
            decl.append([ch.prefix, url])
    return {"seq": seq, "decl": decl}


def _run_small_ops(cassis, sc, ts, members):
    """to_xmi / to_json / typecheck / load_* on a CAS built like the one that was traversed (the traversal observation
    must see the ids before any serialiser assigned some).  Returns ({op: kind}, same member order as the traversed CAS)."""
    cas, views, objs = scen.build_cas(cassis, ts, sc["cspec"])
    lab = {id(o): l for l, o in objs.items()}
    same = [[lab.get(id(x), -1) for x in v.select_all()] for v in views] == members
    cap = OP_CPU_CAP_S if _STATE["op_deadlines"] < 3 else OP_CPU_CAP_AFTER_3_S
    out, docs = {}, {}
    import importlib
    cct = importlib.import_module("cassis.util").cas_to_comparable_text       # of the tree under test (core.load_impl)
    for op in SMALL_OPS:
        if op == "to_xmi":
            fn = cas.to_xmi
        elif op == "to_json":
            fn = cas.to_json
        elif op == "typecheck":
            fn = cas.typecheck
        elif op == "load_cas_from_xmi":
            if docs.get("to_xmi") is None:
                continue
            fn = lambda: cassis.load_cas_from_xmi(docs["to_xmi"], typesystem=ts)  # noqa: E731
        elif op == "load_cas_from_json":
            if docs.get("to_json") is None:
                continue
            fn = lambda: cassis.load_cas_from_json(docs["to_json"], typesystem=ts)  # noqa: E731
        elif op == "cas_to_comparable_text":
            fn = lambda: cct(cas)  # noqa: E731
        else:
            variants = comparable_text_arguments(sc, objs)
            fn = lambda: [cct(cas, **kw) for kw in variants]  # noqa: E731
        kind, r = _bounded(cap, fn)
        out[op] = kind
        if kind == "ok" and op in ("to_xmi", "to_json"):
            docs[op] = r
        if kind == "deadline":
            _STATE["op_deadlines"] += 1
            break                                           # one loop that does not end is enough for this case
    ns = None
    if docs.get("to_xmi") is not None and sc["tspec"] != G_TSPEC:
        try:
            ns = observe_namespaces(docs["to_xmi"])
        except Exception:  # noqa: a document that cannot be read is the round-trip properties' business
            ns = None
    return out, same, ns


def run_impl(cassis, sc):
    if sc.get("kind") == "timing":
        signal.setitimer(signal.ITIMER_REAL, 600)          # replay of a deadline counterexample: subprocesses have their own caps
        return _run_timing_case(sc)
    _CASSIS["m"] = cassis
    if sc.get("kind") == "tree":
        return _run_tree(cassis, sc)
    if _STATE["running"]:                                  # the previous call never came back: it was cut by the engine's alarm
        _STATE["hung"] += 1
    if _STATE["hung"] >= 3:                                # the tree under test hangs: do not spend 10 s on every further case
        signal.setitimer(signal.ITIMER_REAL, 1.5)
    _STATE["running"] = True
    try:
        return _run_graph(cassis, sc)
    except Exception:
        _STATE["running"] = False
        raise


def _run_graph(cassis, sc):
    ts = scen.build_ts(cassis, sc["tspec"])
    # the generator's next id before the traversal: on a twin CAS built the same way
    cas0, _v0, _o0 = scen.build_cas(cassis, ts, sc["cspec"])
    next_before = _probe_next(cas0, ts, sc["tspec"])
    cas, views, objs = scen.build_cas(cassis, ts, sc["cspec"])
    lab = {id(o): l for l, o in objs.items()}
    ids_before = {str(l): o.xmiID for l, o in objs.items()}
    members = [[lab.get(id(x), -1) for x in v.select_all()] for v in views]
    sofas = [{"id": v.get_sofa().xmiID, "num": v.get_sofa().sofaNum, "name": v.get_sofa().sofaID} for v in views]
    seeds = None if sc["seeds"] is None else [objs[l] for l in sc["seeds"]]
    err, found = None, []
    try:
        res = list(cas._find_all_fs(include_inlinable_arrays_and_lists=sc["inl"], seeds=seeds))
        found = [[fs.xmiID, lab.get(id(fs), -1)] for fs in res]
    except Exception as e:  # noqa
        err = _errkind(e)
    ids_after = {str(l): o.xmiID for l, o in objs.items()}
    next_after = _probe_next(cas, ts, sc["tspec"])
    ops, same, ns = _run_small_ops(cassis, sc, ts, members)
    _STATE["running"] = False
    return {"next_before": next_before, "ids_before": ids_before, "members": members, "sofas": sofas, "err": err,
            "found": found, "ids_after": ids_after, "next_after": next_after, "ops": ops, "ops_same_members": same,
            "xmi_ns": ns}


# ------------------------------------------------------------------------------------------------ oracle (from the scenario)


def _is_prim(schema, rng):
    return any(a in scen.PRIMS for a in [rng] + schema.get(rng, {"anc": []})["anc"])


def py_succs(schema, by, o, inl):
    """Successor labels of object o (cspec entry), computed from the scenario alone."""
    t = o["type"]
    anc = schema[t]["anc"]

    def elements(x):
        e = x["slots"].get("elements")
        return [v["ref"] for v in (e["list"] if e else []) if v is not None]

    if len(anc) >= 2 and anc[1] == T + "ArrayBase":
        return elements(o) if t == FS_ARRAY else []
    out = []
    for pn, _xn, rng, _el, multi in schema[t]["feats"]:
        if pn == "sofa" or _is_prim(schema, rng):
            continue
        v = o["slots"].get(pn)
        if v is None:
            continue
        if not inl and not multi and (rng in scen.ARRS or rng in scen.LISTS or rng in (FS_ARRAY, FS_LIST)):
            if rng == FS_ARRAY:
                out.extend(elements(by[v["ref"]]))
            elif rng == FS_LIST:
                cur, seen = v, set()
                while cur is not None and cur["ref"] not in seen and "head" in [f[0] for f in schema[by[cur["ref"]]["type"]]["feats"]]:
                    seen.add(cur["ref"])
                    node = by[cur["ref"]]
                    if node["slots"].get("head") is not None:
                        out.append(node["slots"]["head"]["ref"])
                    cur = node["slots"].get("tail")
            continue
        out.append(v["ref"])
    return out


def expected_reach(cassis, sc, obs):
    schema = scen.schema_of(cassis, sc["tspec"])
    by = {o["o"]: o for o in sc["cspec"]["objs"]}
    idb = {int(k): v for k, v in obs["ids_before"].items()}
    seeds = sc["seeds"] if sc["seeds"] is not None else [l for m in obs["members"] for l in m]
    seen, todo = set(), list(seeds)
    while todo:
        l = todo.pop()
        if l in seen or idb[l] == 0:
            continue
        seen.add(l)
        todo.extend(py_succs(schema, by, by[l], sc["inl"]))
    return seen


def cyclic_inline_lists(cassis, sc, obs):
    """[(holder label, feature)] of the lists a writer that stores them inside the holder's element would have to walk
    for ever: features without multipleReferencesAllowed whose range is FSList / IntegerList / FloatList / StringList,
    on structures reachable from the indexed ones, whose tail chain comes back to one of its nodes.  From the scenario."""
    schema = scen.schema_of(cassis, sc["tspec"])
    by = {o["o"]: o for o in sc["cspec"]["objs"]}
    reach = expected_reach(cassis, dict(sc, inl=False, seeds=None), obs)
    out = []
    for l in sorted(reach):
        o = by[l]
        anc = schema[o["type"]]["anc"]
        if len(anc) >= 2 and anc[1] == T + "ArrayBase":
            continue
        for pn, _xn, rng, _el, multi in schema[o["type"]]["feats"]:
            if multi or not (rng in scen.LISTS or rng == FS_LIST):
                continue
            cur, seen = o["slots"].get(pn), set()
            while cur is not None and "ref" in cur and any(f[0] == "head" for f in schema[by[cur["ref"]]["type"]]["feats"]):
                if cur["ref"] in seen:
                    out.append((l, pn))
                    break
                seen.add(cur["ref"])
                cur = by[cur["ref"]]["slots"].get("tail")
    return out


def _duplicate_ids_possible(cassis, sc, obs, inl):
    """a traversal from the indexed structures may legitimately report a duplicate id (ValueError)"""
    reach = expected_reach(cassis, dict(sc, inl=inl, seeds=None), obs)
    idb = {int(k): v for k, v in obs["ids_before"].items()}
    explicit = [idb[l] for l in reach if idb[l] is not None]
    forced = len(set(explicit)) < len(explicit)
    may_collide = any(idb[l] is None for l in reach) and any(i >= obs["next_before"] for i in explicit)
    return forced or may_collide


def _duplicate_ids_possible_anywhere(sc, obs):
    ids = [v for v in obs["ids_before"].values()]
    explicit = [i for i in ids if i is not None]
    return len(set(explicit)) < len(explicit) or (len(explicit) < len(ids) and any(i >= obs["next_before"] for i in explicit))


def ops_oracle(cassis, sc, obs):
    """Every operation came back (CPU deadline), and the writers / typecheck refused only what they may refuse."""
    ops = obs.get("ops") or {}
    size = f"{len(sc['cspec']['objs'])} feature structures, shape {sc.get('shape')}"
    for op in SMALL_OPS:
        if ops.get(op) in NOT_BACK:
            return f"{op} did not come back ({ops[op]}; CPU cap {OP_CPU_CAP_S} s) on a graph of {size}"
    for op in ("to_xmi", "to_json", "typecheck", "cas_to_comparable_text", "cas_to_comparable_text_args"):
        k = ops.get(op)                                     # all of them traverse the CAS: a duplicate id is a ValueError
        if k in (None, "ok"):
            continue
        if k != "ValueError":
            return f"{op} raised {k} on a well-formed graph ({size})"
        if _duplicate_ids_possible(cassis, sc, obs, False) or _duplicate_ids_possible(cassis, sc, obs, True):
            continue
        if op == "cas_to_comparable_text_args" and _duplicate_ids_possible_anywhere(sc, obs):
            continue                                        # explicit seeds may reach what the indexed structures do not
        if op == "to_xmi" and cyclic_inline_lists(cassis, sc, obs):
            continue                                        # XMI has no inline form for a cyclic list: refusing is allowed
        return f"{op} raised ValueError although ids are distinct and no list written inline is cyclic ({size})"
    # the loaders are judged for coming back only: what they make of a document (e.g. of one whose indexed structure
    # carries the id of cas:NULL) is the business of the round-trip properties
    return None


def oracle(cassis, sc, obs):
    if sc.get("kind") == "timing":
        return obs.get("failure")
    if sc.get("kind") == "tree":
        return tree_oracle(sc, obs)
    return traversal_oracle(cassis, sc, obs) or ops_oracle(cassis, sc, obs)


def traversal_oracle(cassis, sc, obs):
    reach = expected_reach(cassis, sc, obs)
    idb = {int(k): v for k, v in obs["ids_before"].items()}
    ida = {int(k): v for k, v in obs["ids_after"].items()}
    dup = {}
    for l in reach:
        if idb[l] is not None:
            dup.setdefault(idb[l], []).append(l)
    forced = sorted(i for i, ls in dup.items() if len(ls) > 1)
    may_collide = any(idb[l] is None for l in reach) and any(idb[l] is not None and idb[l] >= obs["next_before"] for l in reach)
    if obs["err"] is not None:
        if obs["err"] != "EDupId":
            return f"_find_all_fs raised {obs['err']} on a well-formed graph (shape {sc.get('shape')})"
        if not forced and not may_collide:
            return "_find_all_fs reported a duplicate id but all reachable structures have distinct ids"
        return None
    if forced:
        return f"two reachable structures carry id {forced[0]} (labels {dup[forced[0]]}) and no error was raised"
    labels = [l for _i, l in obs["found"]]
    if len(set(labels)) != len(labels):
        return "a feature structure was returned more than once"
    if set(labels) != reach:
        return (f"returned structures differ from the reachable ones: missing {sorted(reach - set(labels))[:10]}, "
                f"unexpected {sorted(set(labels) - reach)[:10]}")
    ids = [i for i, _l in obs["found"]]
    if len(set(ids)) != len(ids):
        return "two returned structures share an xmi:id"
    fresh = [i for i, l in obs["found"] if idb[l] is None]
    if fresh != list(range(obs["next_before"], obs["next_before"] + len(fresh))):
        return f"ids assigned during the traversal are not the generator's next ids in order: {fresh[:10]} from {obs['next_before']}"
    if obs["next_after"] != obs["next_before"] + len(fresh):
        return "id generator advanced by a different amount than the number of ids assigned"
    for l, i in idb.items():
        if i is not None and ida[l] != i:
            return f"an explicit id was changed ({i} -> {ida[l]})"
        if i is None and l not in reach and ida[l] is not None:
            return "an unreachable structure was given an id"
    for i, l in obs["found"]:
        if ida[l] != i or i is None:
            return "returned structure without its id"
    return None


# ------------------------------------------------------------------------------------------------ rendering


def _g_cas(sc, obs):
    cspec = json.loads(json.dumps(sc["cspec"]))
    for o in cspec["objs"]:
        o["id"] = obs["ids_before"][str(o["o"])]
    views = glist([
        f"mkView (mkSofa {gz(s['id'])} {gz(s['num'])} {gstr(s['name'])} None None None None) {glist([gn(l) for l in m])}"
        for s, m in zip(obs["sofas"], obs["members"])])
    return f"(mkCas {views}\n  {scen.g_heap(cspec)}\n  {gz(obs['next_before'])})"


G_OBJ_TYPES = ["g.Node", "g.Sub", "g.Ann", FS_ARRAY, NE_LIST, E_LIST, T + "IntegerArray", T + "NonEmptyStringList",
               T + "EmptyStringList", T + "StringArray", T + "NonEmptyIntegerList", T + "EmptyIntegerList",
               T + "NonEmptyFloatList", T + "EmptyFloatList"]
_SCHEMA_CONST = {}


def schema_const_usable(cassis, tspec, obj_types, coq_file, marker):
    """(usable, names): usable when the constant between `(* BEGIN marker *)` and `(* END marker *)` in coq/<coq_file> is,
    character for character, what scen.g_schema would render now for tspec (closure of obj_types)."""
    if marker not in _SCHEMA_CONST:
        schema = scen.schema_of(cassis, tspec)
        names = scen.used_type_names(schema, {"objs": [{"type": t} for t in obj_types]})
        want = scen.g_schema(schema, names)
        try:
            src = open(os.path.join(core.COQ, coq_file), encoding="utf-8").read()
            have = src.split(f"(* BEGIN {marker} *)\n")[1].split(f"\n(* END {marker} *)")[0]
        except Exception:  # noqa
            have = None
        _SCHEMA_CONST[marker] = (have == want, set(names), want)
    return _SCHEMA_CONST[marker][0], _SCHEMA_CONST[marker][1]


def render(sc, obs):
    if sc.get("kind") in ("timing", "tree"):          # no Gallina case: judged by the oracle alone
        return None
    if any(l < 0 for m in obs["members"] for l in m) or any(l < 0 for _i, l in obs["found"]):
        return None
    cassis = _CASSIS.get("m")
    if sc["tspec"] == G_TSPEC:
        ok, names = schema_const_usable(cassis, G_TSPEC, G_OBJ_TYPES, "CorrC15.v", "schemaG")
        if ok and all(o["type"] in names for o in sc["cspec"]["objs"]):
            return _render_with("schemaG", sc, obs)
    if sc["tspec"] == P_TSPEC:
        ok, names = schema_const_usable(cassis, P_TSPEC, P_OBJ_TYPES, "CorrC15.v", "schemaP")
        if ok and all(o["type"] in names for o in sc["cspec"]["objs"]):
            return _render_with("schemaP", sc, obs)
    schema = scen.schema_of(cassis, sc["tspec"])
    names = scen.used_type_names(schema, sc["cspec"])
    return _render_with(scen.g_schema(schema, names), sc, obs)


def _render_with(schema_term, sc, obs):
    seeds = "None" if sc["seeds"] is None else "(Some " + glist([gn(l) for l in sc["seeds"]]) + ")"
    err = "None" if obs["err"] is None else f"(Some {obs['err']})"
    found = glist([f"({gz(i)}, {gn(l)})" for i, l in obs["found"]])
    ids = glist([f"({gn(int(l))}, {gopt(i, gz)})" for l, i in obs["ids_after"].items()])
    x = (obs.get("ops") or {}).get("to_xmi")
    xmi = "None" if not obs.get("ops_same_members") or x not in ("ok", "ValueError") else f"(Some {gbool(x == 'ok')})"
    ns = obs.get("xmi_ns")
    pairs = lambda l: glist([f"({gstr(a)}, {gstr(b)})" for a, b in l])  # noqa: E731
    gns = "None" if not ns or not all(isinstance(p, str) for p, _u in ns["decl"]) else f"(Some ({pairs(ns['seq'])}, {pairs(ns['decl'])}))"
    return (f"mkCase {schema_term}\n {_g_cas(sc, obs)}\n {gbool(sc['inl'])} {seeds} {err} {found}\n {ids} "
            f"{gz(obs['next_after'] if obs['err'] is None else 0)} {xmi} {gns}")


def nontrivial(sc):
    if sc.get("kind") == "timing":
        return True
    if sc.get("kind") == "tree":                      # some type is declared with two different supertypes
        sup = {}
        for v in sc["versions"]:
            for t, p in v:
                sup.setdefault(t, set()).add(p)
        return any(len(x) > 1 for x in sup.values())
    if sc["seeds"] is not None:
        return True
    objs = sc["cspec"]["objs"]
    refs = {}
    for o in objs:
        for v in o["slots"].values():
            if v and "ref" in v:
                refs[v["ref"]] = refs.get(v["ref"], 0) + 1
            if v and "list" in v:
                ls = [e["ref"] if e else None for e in v["list"]]
                if None in ls or len(set(ls)) < len(ls):
                    return True
    return any(k > 1 for k in refs.values())


SHRINK_BUDGET = 150


def shrink_candidates(sc):
    if sc.get("kind") == "timing":
        return
    if sc.get("kind") == "tree":
        yield from _shrink_tree(sc)
        return
    for c in _shrink_candidates(sc):
        _STATE["shrinks"] += 1
        if _STATE["shrinks"] > SHRINK_BUDGET:          # global budget: a hanging tree makes every candidate cost a timeout
            return
        yield c


def _shrink_tree(sc):
    """drop a stage, a version, or a type (its children go to its supertype)"""
    for i in range(len(sc["stages"])):
        if len(sc["stages"]) > 1:
            yield dict(sc, stages=sc["stages"][:i] + sc["stages"][i + 1:])
    for i in range(len(sc["versions"])):
        if len(sc["versions"]) > 1:
            yield dict(sc, versions=sc["versions"][:i] + sc["versions"][i + 1:])
    for i, v in enumerate(sc["versions"]):
        for j, (t, p) in enumerate(v):
            if len(v) > 1:
                w = [[a, (p if b == t else b)] for k, (a, b) in enumerate(v) if k != j]
                yield dict(sc, versions=sc["versions"][:i] + [w] + sc["versions"][i + 1:])


def _shrink_candidates(sc):
    """clear one slot (not the offsets / sofa of an annotation), or drop one index entry"""
    objs = sc["cspec"]["objs"]
    prim_nodes = {T + "NonEmpty%sList" % k for k in PRIM_HEAD}
    for o in objs:
        for k in list(o["slots"]):
            if k in ("sofa", "begin", "end") or (k == "head" and o["type"] in prim_nodes):
                continue                                   # a node of a list of primitive values keeps its value
            c = json.loads(json.dumps(sc))
            del [x for x in c["cspec"]["objs"] if x["o"] == o["o"]][0]["slots"][k]
            yield c
    if len(sc["cspec"]["members"]) > 1:
        for i in range(len(sc["cspec"]["members"])):
            c = json.loads(json.dumps(sc))
            del c["cspec"]["members"][i]
            yield c


def signature(sc, msg):
    return {"kind": sc.get("kind"), "shape": sc.get("shape"), "what": (msg or "").split(":")[0][:60]}


def distribution(scenarios, observations):
    g = [s for s in scenarios if s.get("kind") == "graph"]
    by_shape = {}
    for s in g:
        by_shape[s["shape"]] = by_shape.get(s["shape"], 0) + 1
    for s in scenarios:
        if s.get("kind") == "tree":
            by_shape[s["shape"]] = by_shape.get(s["shape"], 0) + 1
    trees = [o for s, o in zip(scenarios, observations) if s.get("kind") == "tree" and o]
    return {"cases": len(scenarios), "by_shape": by_shape,
            "type_tree_cases": len(trees), "type_tree_stages_observed": sum(len(o.get("stages", [])) for o in trees),
            "type_tree_merges_refused": sum(1 for o in trees for st in o.get("stages", []) if st.get("refused")),
            "inl_true": sum(1 for s in g if s["inl"]), "explicit_seeds": sum(1 for s in g if s["seeds"] is not None),
            "max_objects": max([len(s["cspec"]["objs"]) for s in g] or [0]),
            "errors_observed": sum(1 for o in observations if o and o.get("err")),
            "small_ops_run": sum(len(o.get("ops") or {}) for o in observations if o),
            "to_xmi_refused": sum(1 for o in observations if o and (o.get("ops") or {}).get("to_xmi") == "ValueError"),
            "to_xmi_compared_in_coq": sum(1 for o in observations if o and o.get("ops_same_members")
                                          and (o.get("ops") or {}).get("to_xmi") in ("ok", "ValueError")),
            "namespaces_compared_in_coq": sum(1 for o in observations if o and o.get("xmi_ns")),
            "namespace_prefixes_renamed": sum(1 for o in observations if o and o.get("xmi_ns")
                                              and any(p != u[len("http:///"):-len(".ecore")].split("/")[-1] for p, u in o["xmi_ns"]["decl"])),
            "comparable_text_calls": sum(1 for o in observations if o and (o.get("ops") or {}).get("cas_to_comparable_text_args")),
            "contradictory_tree_cases": sum(1 for s in scenarios if s.get("kind") == "tree" and s.get("queries")),
            "ids_assigned_cases": sum(1 for o in observations if o and o.get("found") and o["next_after"] > o["next_before"])}


# ------------------------------------------------------------------------------------------------ deadline oracle

TIMING = os.path.join(os.path.dirname(os.path.abspath(__file__)), "c15_timing.py")
OPS = ["typecheck", "to_xmi", "to_json", "to_json_minimal", "load_cas_from_xmi", "load_cas_from_json", "select", "cas_to_comparable_text",
       "cas_to_comparable_text_args"]
SHAPES = ["chain", "cycle", "selfref", "diamond", "inline_array", "shared_array", "inline_list", "shared_list",
          "cyclic_inline_list", "cyclic_shared_list", "many_small_collections", "top_fan", "deep_types", "type_ref_ladder",
          "prim_lists", "cyclic_inline_int_list", "cyclic_inline_float_list", "cyclic_inline_string_list",
          "cyclic_shared_prim_list", "nested_arrays", "nested_collections", "merged_types", "colliding_packages"]
LIST_SHAPES = ("inline_list", "shared_list", "cyclic_inline_list", "cyclic_shared_list", "prim_lists",
               "cyclic_inline_int_list", "cyclic_inline_float_list", "cyclic_inline_string_list", "cyclic_shared_prim_list")
# the only operation that may end with an exception: XMI refuses to write a cyclic list inline (ValueError)
ALLOWED_ERRORS = {(sh, "to_xmi"): "ValueError" for sh in ("cyclic_inline_list", "cyclic_inline_int_list",
                                                          "cyclic_inline_float_list", "cyclic_inline_string_list")}
RATIO_CAP = 12.0
RATIO_FLOOR_S = 0.05


def timing_sizes(shape, tier):
    if shape == "diamond":
        return [50, 100, 200]
    if shape == "type_ref_ladder":            # depth of a type tree whose levels refer to the next level through several features
        return [15, 30, 60]
    if shape == "merged_types":               # depth of each of the two versions of the type tree that are merged
        return [10, 20, 40]
    base = [250, 500, 1000] if tier == "quick" else [1000, 2000, 4000]
    if shape in LIST_SHAPES:
        return base + ([5000] if tier == "quick" else [8000])
    return base


def caps(tier, n):
    """(CPU cap per operation, wall cap for the whole subprocess of one size)"""
    cpu = 20.0 if tier == "quick" else 60.0
    return cpu, 3 * cpu


def _measure(shape, n, wall):
    env = dict(os.environ)
    env["PYTHONPATH"] = core.REPO
    env["PYTHONHASHSEED"] = "0"
    t0 = time.time()
    try:
        p = subprocess.run([sys.executable, TIMING, shape, str(n)], env=env, capture_output=True, text=True, timeout=wall,
                           cwd=os.path.dirname(TIMING))
    except subprocess.TimeoutExpired:
        return None, f"did not finish within {wall:.0f} s wall-clock"
    if p.returncode != 0:
        return None, f"subprocess failed: {p.stderr[-400:]}"
    try:
        return json.loads(p.stdout.strip().split("\n")[-1]), None
    except Exception:  # noqa
        return None, f"unreadable output after {time.time() - t0:.1f} s: {p.stdout[-200:]}"


def _judge_row(shape, n, r, cpu_cap, prev):
    """What is wrong with the measurements r of one size (prev = (previous size, its measurements) or None), or None."""
    for op, t in r["times"].items():
        if t > cpu_cap:
            return f"{shape} n={n}: {op} took {t:.2f} s CPU (cap {cpu_cap:.0f} s)"
    for op, kind in r.get("errors", {}).items():
        if ALLOWED_ERRORS.get((shape, op)) != kind:
            return f"{shape} n={n}: {op} raised {kind}"
    missing = [op for op in OPS if op not in r["times"] and not (op == "load_cas_from_xmi" and "to_xmi" in r.get("errors", {}))]
    if missing:
        return f"{shape} n={n}: operations not measured: {missing}"
    # work counted in steps: the walk over the subtypes of the root of the deep type tree (what select, select_covered and
    # create_feature iterate over) hands out every type at most once, so never more types than the type system has
    w = r.get("work") or {}
    if w and w["subtypes_walked"] > w["types"]:
        return (f"{shape} n={n}: walking the subtypes of d.T0 hands out {w['subtypes_walked']}{'+' if w['subtypes_walked'] > 50 * w['types'] else ''} "
                f"types ({w['subtypes_distinct']} distinct), the whole type system has {w['types']}")
    if prev:
        pn, pr = prev
        for op, t in r["times"].items():
            pt = pr["times"].get(op)
            if pt is None or pt < RATIO_FLOOR_S:
                continue
            cap = RATIO_CAP * max(1.0, max(1.0, (n / pn)) / 2.0)
            if t / pt > cap:
                return f"{shape}: {op} grew {t / pt:.1f}x from n={pn} ({pt:.3f} s) to n={n} ({t:.3f} s), cap {cap:.0f}x"
    return None


def judge_shape(shape, tier, measure=_measure):
    """Runs the sizes of one shape in increasing order; returns (ok, detail, failing scenario or None)."""
    sizes = timing_sizes(shape, tier)
    rows = []
    for n in sizes:
        cpu_cap, wall = caps(tier, n)
        r, fail = measure(shape, n, wall)
        sc = {"kind": "timing", "shape": shape, "n": n, "tier": tier, "prev_n": rows[-1][0] if rows else None}
        if fail:
            return False, f"{shape} n={n}: {fail}", sc
        fail = _judge_row(shape, n, r, cpu_cap, rows[-1] if rows else None)
        if fail:
            return False, fail, sc
        rows.append((n, r))
    worst = max((t for _n, r in rows for t in r["times"].values()), default=0.0)
    return True, f"{shape}: sizes {sizes} worst operation {worst:.3f} s CPU", None


def _run_timing_case(sc):
    """Replay of a deadline counterexample: measure the size (and the previous size for the ratio)."""
    tier = sc.get("tier", "quick")
    sizes = [n for n in timing_sizes(sc["shape"], tier) if n <= sc["n"]] or [sc["n"]]
    rows, failure = [], None
    for n in sizes[-2:]:
        cpu_cap, wall = caps(tier, n)
        r, fail = _measure(sc["shape"], n, wall)
        if fail:
            failure = f"{sc['shape']} n={n}: {fail}"
            break
        failure = _judge_row(sc["shape"], n, r, cpu_cap, rows[-1] if rows else None)
        if failure:
            break
        rows.append((n, r))
    return {"rows": [[n, r] for n, r in rows], "failure": failure}


def extra_checks(ctx):
    from concurrent.futures import ThreadPoolExecutor
    tier = ctx["tier"]
    with ThreadPoolExecutor(max_workers=4) as ex:
        results = list(ex.map(lambda s: (s, judge_shape(s, tier)), SHAPES))
    out = []
    for shape, (ok, detail, sc) in results:
        out.append((f"deadline:{shape}", ok, detail, sc))
    return out


MANIFEST = {
    "level_text": "Machine-checked proof (Coq 8.16) that the modelled reachability worklist of Cas._find_all_fs - enqueue-once "
                  "by identity, id assignment at pop, inline FSArray/FSList member scanning with a node set - never runs out "
                  "of the fuel |heap|+1 (pops <= live objects, list walk <= live objects, for all schemas, heaps and seeds, "
                  "cyclic or not) and returns exactly the structures reachable from the seeds, each once; that the XMI writer's "
                  "walk over a list stored inline (FSList, IntegerList, FloatList, StringList) never runs out of the same fuel, "
                  "refuses exactly the cyclic tail chains and otherwise returns the heads in order; the unrepaired loops "
                  "are refuted (2^(n+1)-1 pops on diamond chains, divergent list walks). The models are tied to /repo on every "
                  "run by evaluating them inside Coq on the graphs the implementation traversed and wrote, every operation is run "
                  "under a CPU deadline on each of these graphs, and a deadline oracle measures "
                  "to_xmi/to_json/load_*/typecheck/select/cas_to_comparable_text (default and with optional arguments) on 23 shapes at sizes n,2n,4n. The walk over "
                  "the subtypes of a type (Type.descendants, what select iterates over) is proved to hand out every type at most "
                  "once on every type system satisfying the hierarchy invariant, in particular on every result of the modelled "
                  "merge_typesystems (a stale _children entry per level makes it 3*2^k-2: refuted); on type trees built through "
                  "every public route the implementation's walk is counted in steps on every run. Fourth wave: the walk up the supertype "
                  "attributes returns on every such type system (a ring of supertypes: refuted), checked in steps on merges of versions that "
                  "contradict each other; the XMI writer's search for a free namespace prefix is proved to return within |table|+2 rounds for "
                  "every table, counter state and package name (suffix read from the wrong counter: refuted) and is compared in Coq with the "
                  "prefixes of the documents written for graphs over colliding packages.",
    "level_note": "PARTIAL: the theorems bound loop iterations of the model (worklist pops, list-walk steps); hierarchy queries are "
                  "data lookups in Schema (ancestor lists), readers/writers are structural folds over the document / the id-sorted "
                  "list (total by Coq's guard condition). Wall-clock / CPU time of the implementation is measured (absolute cap and "
                  "growth ratio <= 12 per doubling), not proved. Trusted: Coq kernel + vm_compute; hand-written model coq/Reach.v; "
                  "harness. Print Assumptions: closed under the global context.",
    "technique": "Coq proof over an executable Gallina model + in-Coq behavioural correspondence + subprocess deadline oracle",
    "design_ref": "DESIGN.md section 5, C15 (and C04 reachability half)",
}
