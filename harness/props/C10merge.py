"""C10, sub-suite "merge": hierarchy queries on type systems obtained by merging — and by creating types in, and merging
again, what was merged — with every object of a case kept alive and re-queried across the stages of the case.

Scenario IR (JSON-able):
  {"inputs": [[op...], ...],            histories (tscommon ops), each applied ONCE to a fresh TypeSystem()
   "prog": [["m", [i, j, ...]]          merge_typesystems(objects[i], objects[j], ...) appended to the object table
            | ["op", i, op], ...],      create_type / create_feature applied in place to objects[i]
   "each": bool}                        observe all objects before the first and after every stage, or only at the end
The object table starts with the inputs; a merge that raises stays in the table as its error kind.
"""
import json

from harness.gallina import gbool, glist, gn, gnat, gopt, gstr
from harness.props import tscommon as T
from harness.props.tscommon import Tree, gbits, gop, gout, gstrs

ID = "C10merge"
SUITE = "merge"
COQ_TARGETS = ["TS.vo", "Merge.vo", "CorrC10.vo", "CorrC10merge.vo"]
CORR_IMPORTS = "Base TS Merge CorrC10 CorrC10merge"
OPEN_SCOPES = ["string_scope", "list_scope"]
CASE_TYPE = "mcase"
CHECK_FN = "check_mcase"
PREMISES_FN = "premises_m"
CASES_PER_SHARD = 16
SHARD_BYTES = 120_000
SHARD_JOBS = 14

ENTRY = "cassis.typesystem.merge_typesystems, TypeSystem.create_type/create_feature/subsumes/is_instance_of, Type.children/descendants/subsumes"
RULE = ("2-3 input type systems built once; a program of merge / in-place create_type / create_feature stages on the live objects; "
        "all objects re-queried before the first and after every stage (or only at the end); see C10.RULE")
TRUSTED = ["coq/Merge.v (C13's model of merge_typesystems) evaluated on TS.v values; objects of the implementation correspond to "
           "immutable values of the model, an entry changing only when a stage names it",
           "oracle: declared tree of a merge = most specific declared supertype, 'below' = reachability in the union of the "
           "declared edges (hand-written, independent of cassis and of the model)"]
ASSUMPTIONS = ["a merge that raises ValueError is not judged (C13 decides which inputs must merge); any other exception is a failure",
               "post-merge operations use fresh feature names (z1, z2), so their outcome does not depend on the feature merge rules"]
ANN, TOP = "uima.tcas.Annotation", T.TOP
QUERIED_BUILTINS = [TOP, "uima.cas.AnnotationBase", ANN]
POOL = ["m.A", "m.B", "m.C", "m.D", "m.E"]


def ct(n, s):
    return {"op": "ct", "n": n, "s": s, "d": None}


def cf(dom, n, r, e=None):
    return {"op": "cf", "dom": dom, "n": n, "r": r, "e": e, "m": None, "d": None}


# ---------------------------------------------------------------------------------------------- generators
# small scope: every ordered pair of these declarations of {m.A, m.B, m.C}
SHAPES = [
    [ct("m.A", ANN)],
    [ct("m.A", ANN), ct("m.B", ANN)],
    [ct("m.A", ANN), ct("m.B", "m.A")],
    [ct("m.A", ANN), ct("m.B", ANN), cf("m.A", "f", "uima.cas.String")],
    [ct("m.A", ANN), ct("m.B", "m.A"), ct("m.C", "m.B")],
    [ct("m.A", ANN), ct("m.B", ANN), ct("m.C", ANN), cf("m.B", "k", "uima.cas.Integer")],
    [ct("m.A", ANN), ct("m.C", "m.A")],
    [ct("m.B", ANN), ct("m.A", "m.B")],
    [ct("m.A", TOP), ct("m.B", TOP), ct("m.C", "m.B")],
    [ct("m.A", ANN), ct("m.B", ANN), cf("m.A", "g", "m.B"), cf("m.A", "h", "uima.cas.FSArray", "m.B")],
    [ct("m.B", ANN), ct("m.A", ANN), cf("m.A", "f", "uima.cas.String"), cf("m.A", "g", "m.B")],
]
THIRD = [ct("m.A", ANN), ct("m.B", ANN), cf("m.A", "f", "uima.cas.String")]


def _enumerated():
    k = 0
    for a in SHAPES:
        for b in SHAPES:
            r = 2  # index of the first merge result when there are two inputs
            if k % 3 == 0:       # both argument orders on the same two objects
                sc = {"inputs": [a, b], "prog": [["m", [0, 1]], ["m", [1, 0]]], "each": True}
            elif k % 3 == 1:     # one input takes part in two merges
                sc = {"inputs": [a, b, THIRD], "prog": [["m", [0, 1]], ["m", [2, 1]]], "each": k % 2 == 0}
            else:                # the result is extended and merged again
                sc = {"inputs": [a, b], "prog": [["m", [0, 1]], ["op", r, ct("z.N1", "m.A")], ["op", r, cf("B", "z1", "m.A")],
                                                 ["m", [r, 1]]], "each": k % 4 != 1}
            yield T.clone(sc)
            k += 1


def _feature_table(rng):
    x, y, z = rng.choice(POOL), rng.choice(POOL), rng.choice(POOL)
    return {"f": ("uima.cas.String", None), "k": ("uima.cas.Integer", None), "g": (x, None),
            "h": ("uima.cas.FSArray", y), "l": ("uima.cas.FSList", z)}


def _guide(rng):
    """a random forest over the pool: the inputs of a case declare each type below one of its ancestors in it, so that the
    declared supertypes are comparable and merging re-parents a lot"""
    order = POOL[:]
    rng.shuffle(order)
    root = rng.choice([ANN, ANN, TOP])
    par = {}
    for i, n in enumerate(order):
        par[n] = rng.choice(order[:i] + [root]) if i and rng.random() < 0.8 else root
    chain = {}
    for n in order:
        c, p = [], par[n]
        while p in par:
            c.append(p)
            p = par[p]
        c.append(p)
        if p == ANN:
            c += ["uima.cas.AnnotationBase", TOP]
        chain[n] = c
    return order, chain


def _input(rng, order, chain, feats, free=False, conflict=False):
    size = rng.randint(2, len(order))
    chosen = set(rng.sample(order, size))
    ops, declared = [], []
    for n in order:
        if n not in chosen:
            continue
        if free:
            cands = declared + [ANN, TOP]
            p = rng.choice(cands)
        else:
            cands = [c for c in chain[n] if c in declared or c in T.BUILTIN_NAMES]
            p = cands[0] if rng.random() < 0.5 else rng.choice(cands)
        ops.append(ct(n, p))
        declared.append(n)
    for n in declared:
        if rng.random() < 0.45:
            name = rng.choice(sorted(feats))
            r, e = feats[name]
            if conflict and name == "f":
                r = "uima.cas.Integer"
            if (r in declared or r in T.BUILTIN_NAMES) and (e is None or e in declared):
                ops.append(cf(n, name, r, e))
    return ops


def _post_op(rng, obj):
    r = rng.random()
    if r < 0.55:
        return ["op", obj, ct(rng.choice(["z.N1", "z.N2", "z.N3", rng.choice(POOL)]),
                              rng.choice(POOL + ["A", "B", "C", ANN, "z.N1", "no.Such"]))]
    return ["op", obj, cf(rng.choice(POOL + ["z.N1"]), rng.choice(["z1", "z2"]), rng.choice(["uima.cas.String"] + POOL[:3]))]


def _random_case(rng, k):
    order, chain = _guide(rng)
    feats = _feature_table(rng)
    n_in = rng.choice([2, 2, 3])
    free = rng.random() < 0.15
    conflict = rng.random() < 0.10
    inputs = [_input(rng, order, chain, feats, free=free and i == 1, conflict=conflict and i == 1) for i in range(n_in)]
    r = n_in  # first result
    shape = k % 8
    last = n_in - 1
    if shape == 0:
        prog = [["m", [0, 1]], ["m", [1, 0]]]
    elif shape == 1:
        prog = [["m", [0, 1]], ["m", [last, 1]], ["m", [1, 0]]]
    elif shape == 2:
        prog = [["m", [0, 1]], ["m", [r, last]], ["m", [last, r]]]
    elif shape == 3:
        prog = [["m", [0, 1]], _post_op(rng, r), _post_op(rng, r), ["m", [r, 0]]]
    elif shape == 4:
        prog = [["m", [0, 1]], _post_op(rng, 1), ["m", [0, 1]], ["m", [r, r + 1]]]
    elif shape == 5:
        prog = [_post_op(rng, 0), ["m", list(range(n_in))], ["m", list(range(n_in))[::-1]]]
    else:
        prog, n_obj = [], n_in
        for _ in range(rng.randint(2, 4)):
            if rng.random() < 0.65 or not prog:
                prog.append(["m", [rng.randrange(n_obj) for _ in range(rng.choice([2, 2, 3]))]])
                n_obj += 1
            else:
                prog.append(_post_op(rng, rng.randrange(n_obj)))
    return {"inputs": inputs, "prog": prog, "each": rng.random() < 0.75}


def generate(rng, tier):
    if tier != "search":
        yield from _enumerated()
    n = {"quick": 80, "thorough": 800, "search": 1500}[tier]
    for k in range(n):
        yield _random_case(rng, k)


# ---------------------------------------------------------------------------------------------- implementation
def tree_failures(ts):
    """One tree rooted at uima.cas.TOP?  Checked from the type objects alone (no cassis query is trusted)."""
    types = {t.name: t for t in ts.get_types(built_in=True)}
    out = []
    for n, t in types.items():
        cur, steps = t, 0
        while cur is not None and cur.name != "uima.cas.TOP" and steps <= len(types):
            cur, steps = cur.supertype, steps + 1
        if cur is None or cur.name != "uima.cas.TOP":
            out.append(f"supertype chain of {n} does not reach uima.cas.TOP")
        if t.supertype is not None:
            if types.get(t.supertype.name) is not t.supertype:
                out.append(f"supertype of {n} is not the registered {t.supertype.name}")
            if sum(1 for c in t.supertype.children if c is t) != 1:
                out.append(f"{n} is not exactly once among the children of its supertype {t.supertype.name}")
        for c in t.children:
            if c.supertype is not t:
                out.append(f"{c.name} is a child of {n} but its supertype is {c.supertype.name if c.supertype else None}")
    return out


def observe(ts):
    reg = list(ts.get_types(built_in=True))
    order = [t.name for t in reg]
    by = {t.name: t for t in reg}
    users = [n for n in order if n not in T.BUILTIN_NAMES]
    names = sorted(users) + [b for b in QUERIED_BUILTINS if b in by]
    ty = [by[n] for n in names]
    o = {"order": order, "names": names}
    o["super_all"] = {t.name: (t.supertype.name if t.supertype is not None else None) for t in reg}
    o["sub_ts"] = [bool(ts.subsumes(a, b)) for a in names for b in names]
    o["sub_ty"] = [bool(a.subsumes(b)) for a in ty for b in ty]
    o["sub_obj"] = [bool(ts.subsumes(a, b)) for a in ty for b in ty]
    o["iio"] = [bool(ts.is_instance_of(b, a)) for a in names for b in names]
    o["iio_obj"] = [bool(ts.is_instance_of(b, a)) for a in ty for b in ty]
    o["super"] = [o["super_all"][n] for n in names]
    o["children"] = [[c.name for c in t.children] for t in ty]
    o["desc"] = [[d.name for d in t.descendants] for t in ty]
    o["ident"] = T.identity_failures(ts)[:3]
    o["tree"] = tree_failures(ts)[:3]
    return o


def run_impl(cassis, sc):
    objs, in_out = [], []
    for ops in sc["inputs"]:
        ts = cassis.TypeSystem()
        in_out.append([T.apply_op(cassis, ts, op) for op in ops])
        objs.append(ts)

    def row():
        return [o if isinstance(o, dict) else observe(o) for o in objs]

    rows = [row() if sc["each"] or not sc["prog"] else None]
    stage_out = []
    for k, st in enumerate(sc["prog"]):
        if st[0] == "m":
            args = [objs[i] for i in st[1]]
            if any(isinstance(a, dict) for a in args):
                objs.append({"err": "EIndex"})
            else:
                try:
                    objs.append(cassis.merge_typesystems(*args))
                except Exception as e:  # noqa
                    objs.append({"err": T.err_kind(cassis, e)})
            stage_out.append(None)
        else:
            o = objs[st[1]]
            stage_out.append("EIndex" if isinstance(o, dict) else T.apply_op(cassis, o, st[2]))
        rows.append(row() if sc["each"] or k == len(sc["prog"]) - 1 else None)
    return {"in_out": in_out, "stage_out": stage_out, "rows": rows}


# ---------------------------------------------------------------------------------------------- oracle
def _reach_up(edges, a):
    """everything reachable from a through the declared edges (a itself included)"""
    seen, todo = {a}, [a]
    while todo:
        x = todo.pop()
        for p in edges.get(x, ()):
            if p not in seen:
                seen.add(p)
                todo.append(p)
    return seen


def expected_merge(trees):
    """The declared tree of a merge, from the declarations alone: a type's supertype is the most specific of its declared
    supertypes, 'below' being reachability in the union of the declared edges.  None when the declarations contradict
    each other (incomparable supertypes, a type above itself): merge_typesystems must refuse those (C13's subject)."""
    base = Tree()
    edges = {n: {p} for n, p in base.sup.items() if p is not None}
    names = list(base.sup)
    for tr in trees:
        for n, p in tr.sup.items():
            if n not in base.sup:
                edges.setdefault(n, set()).add(p)
                if n not in names:
                    names.append(n)
    up = {n: _reach_up(edges, n) for n in names}
    out = Tree()
    for n in names:
        if n in base.sup:
            continue
        if any(n in up[p] for p in edges[n]):
            return None
        best = [s for s in edges[n] if all(s2 in up[s] for s2 in edges[n])]
        if len(best) != 1:
            return None
        out.sup[n] = best[0]
        out.own[n] = {}
    for tr in trees:
        for n in tr.sup:
            if n not in base.sup:
                for k, v in tr.own[n].items():
                    out.own[n].setdefault(k, v)
    return out


def _rel(sup):
    t = Tree()
    t.sup = dict(sup)
    return t


def _judge(o, tree, exact_order):
    """the five queries of one observed type system against a tree (supertype map)"""
    if exact_order:
        if o["order"] != list(tree.sup):
            return (f"registry: get_types(built_in=True) differs from the declared types in creation order: unexpected "
                    f"{sorted(set(o['order']) - set(tree.sup))[:5]}, missing {sorted(set(tree.sup) - set(o['order']))[:5]}")
    elif sorted(o["order"]) != sorted(tree.sup):
        return (f"registry: registered types differ from the declared ones: unexpected "
                f"{sorted(set(o['order']) - set(tree.sup))[:5]}, missing {sorted(set(tree.sup) - set(o['order']))[:5]}, "
                f"listed twice {sorted({n for n in o['order'] if o['order'].count(n) > 1})[:3]}")
    names = o["names"]
    for n, s in o["super_all"].items():
        if s != tree.sup[n]:
            return f"supertype: {n}.supertype is {s}, declared {tree.sup[n]}"
    exp = [tree.subsumes(a, b) for a in names for b in names]
    for key, what in (("sub_ts", "ts.subsumes(names)"), ("sub_ty", "Type.subsumes"), ("sub_obj", "ts.subsumes(types)"),
                      ("iio", "is_instance_of(names)"), ("iio_obj", "is_instance_of(types)")):
        if o[key] != exp:
            k = [i for i, (x, y) in enumerate(zip(o[key], exp)) if x != y][0]
            a, b = names[k // len(names)], names[k % len(names)]
            return f"subsumes: {what} says {o[key][k]} for ancestor={a} descendant={b}, the declared tree says {exp[k]}"
    for i, n in enumerate(names):
        if sorted(o["children"][i]) != tree.children(n):
            return f"children: {n}.children = {o['children'][i][:8]}, types declaring it as supertype: {tree.children(n)[:8]}"
        if sorted(o["desc"][i]) != tree.subtree(n):
            miss = sorted(set(tree.subtree(n)) - set(o["desc"][i]))
            return (f"descendants: {n}.descendants = {o['desc'][i][:8]} ({len(o['desc'][i])} items), the closure of children "
                    f"in the declared relation has {len(tree.subtree(n))}: missing {miss[:5]}, "
                    f"unexpected {sorted(set(o['desc'][i]) - set(tree.subtree(n)))[:5]}")
    if o["tree"]:
        return "tree: " + o["tree"][0]
    if o["ident"]:
        return "identity: " + o["ident"][0]
    return None


def _label(sc, j):
    n = len(sc["inputs"])
    if j < n:
        return f"input {j}"
    ms = [st for st in sc["prog"] if st[0] == "m"]
    return f"result of merge{tuple(ms[j - n][1])}"


def oracle(cassis, sc, obs):
    exp = []
    for j, (ops, outs) in enumerate(zip(sc["inputs"], obs["in_out"])):
        tree = Tree()
        for i, (op, out) in enumerate(zip(ops, outs)):
            allowed = tree.apply(op, out)
            if out not in allowed:
                return f"outcome: input {j}, operation {i} {json.dumps(op)} gave {out}, the property allows {sorted(allowed)}"
        exp.append(tree)
    exact = [True] * len(exp)

    def judge_row(k, row):
        if row is None:
            return None
        when = "before the first stage" if k < 0 else f"after stage {k} {json.dumps(sc['prog'][k])}"
        for j, o in enumerate(row):
            if "err" in o:
                continue
            tree = exp[j]
            if tree is None:   # no expectation from the declarations: the queries must still describe ONE tree
                if len(set(o["order"])) != len(o["order"]) or set(o["super_all"]) != set(o["order"]):
                    return f"registry: {when}, {_label(sc, j)}: a name is registered twice"
                if o["tree"]:
                    return f"tree: {when}, {_label(sc, j)}: {o['tree'][0]}"
                tree = _rel(o["super_all"])
            msg = _judge(o, tree, exact[j] and exp[j] is not None)
            if msg:
                what, rest = msg.split(":", 1)
                return f"{what}: {when}, {_label(sc, j)}:{rest}"
        return None

    msg = judge_row(-1, obs["rows"][0])
    if msg:
        return msg
    for k, (st, out, row) in enumerate(zip(sc["prog"], obs["stage_out"], obs["rows"][1:])):
        n_before = len(exp)
        if st[0] == "m":
            cur = None
            for r in obs["rows"][k + 1:]:
                if r is not None:
                    cur = r[n_before]
                    break
            args = [exp[i] if i < n_before else None for i in st[1]]
            failed_arg = any(a == "err" for a in args)
            if "err" in cur:
                if failed_arg and cur["err"] != "EIndex":
                    return f"outcome: stage {k}: harness error"
                if not failed_arg and cur["err"] != "EValue":
                    return (f"outcome: stage {k} merge_typesystems over objects {st[1]} raised {cur['err']}; only ValueError "
                            f"(type systems that cannot be merged) is a permitted refusal")
                exp.append("err")
            elif any(a is None for a in args):
                exp.append(None)
            else:
                exp.append(expected_merge(args))   # None when the declarations contradict each other
            exact.append(False)
        else:
            tree = exp[st[1]]
            if tree == "err":
                pass
            elif tree is None:
                exp[st[1]] = None
            else:
                allowed = tree.apply(st[2], out)
                if out not in allowed:
                    return (f"outcome: stage {k}: {json.dumps(st[2])} on {_label(sc, st[1])} gave {out}, the property allows "
                            f"{sorted(allowed)}")
        msg = judge_row(k, row)
        if msg:
            return msg
    return None


# ---------------------------------------------------------------------------------------------- Gallina
def _gobs(o):
    names = o["names"]
    users = [n for n in o["order"] if n not in T.BUILTIN_NAMES]

    def nmask(l):
        s = set(l)
        return gn(sum(1 << i for i, n in enumerate(names) if n in s))

    parts = [gstrs(users), gstrs(names), gbits(o["sub_ts"]), gbits(o["sub_ty"]), gbits(o["iio"]),
             glist([gopt(s, gstr) for s in o["super"]]),
             glist([nmask(l) for l in o["children"]]), glist([gn(len(l)) for l in o["children"]]),
             glist([nmask(l) for l in o["desc"]]), glist([gn(len(l)) for l in o["desc"]]),
             gbool(not o["ident"] and not o["tree"])]
    return "mkObs " + " ".join(f"({p})" for p in parts)


def render(sc, obs):
    table, index = [], {}

    def ref(o):
        if "err" in o:
            return f"RErrK {o['err']}" if o["err"] in T.KINDS else "RErrK ERuntime"
        g = _gobs(o)
        if g not in index:
            index[g] = len(table)
            table.append(g)
        return f"RObs {gnat(index[g])}"

    rows = [gopt(r, lambda r_: glist([ref(o) for o in r_])) for r in obs["rows"]]
    inputs = [f"({glist([gop(o) for o in ops])}, {glist([gout(x) for x in outs])})" for ops, outs in zip(sc["inputs"], obs["in_out"])]
    prog = []
    for st, out in zip(sc["prog"], obs["stage_out"]):
        if st[0] == "m":
            prog.append(f"SMerge {glist([gnat(i) for i in st[1]])}")
        else:
            prog.append(f"SOp {gnat(st[1])} ({gop(st[2])}) ({gout(out)})")
    return f"mkMCase ({glist(inputs)}) ({glist(prog)}) ({glist(table, sep=';  ')}) ({glist(rows)})"


def nontrivial(sc):
    """at least one merge, and the inputs declare one type under two different supertypes (most-specific rule / re-parenting)"""
    sups = {}
    for ops in sc["inputs"]:
        for op in ops:
            if op["op"] == "ct":
                sups.setdefault(op["n"], set()).add(op["s"])
    return any(st[0] == "m" for st in sc["prog"]) and any(len(s) > 1 for s in sups.values())


def shrink_candidates(sc):
    prog = sc["prog"]
    if len(prog) > 1:
        c = T.clone(sc)
        c["prog"] = prog[:-1]
        yield c
    idx = len(sc["inputs"])
    for k, st in enumerate(prog):
        if st[0] == "op":
            c = T.clone(sc)
            c["prog"] = prog[:k] + prog[k + 1:]
            yield c
        else:   # a merge whose result no later stage names: drop it and renumber the later results
            later = prog[k + 1:]
            if later and not any(idx in (x[1] if x[0] == "m" else [x[1]]) for x in later):
                c = T.clone(sc)
                dec = lambda i: i - 1 if i > idx else i  # noqa
                c["prog"] = T.clone(prog[:k]) + [["m", [dec(i) for i in x[1]]] if x[0] == "m" else ["op", dec(x[1]), x[2]]
                                                 for x in T.clone(later)]
                yield c
            idx += 1
    for j, ops in enumerate(sc["inputs"]):
        for i in range(len(ops)):
            c = T.clone(sc)
            c["inputs"][j] = ops[:i] + ops[i + 1:]
            yield c
    if not sc["each"]:
        c = T.clone(sc)
        c["each"] = True
        yield c


def signature(sc, msg):
    return {"what": msg.split(":")[0] if msg else ""}
