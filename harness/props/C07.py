"""C07 — select_covered / select_covering implement the containment definitions."""
import itertools
import json

from harness.gallina import glist, gstr, gz

ID = "C07"
COQ_TARGETS = ["Index.vo", "IndexProofs.vo", "Refuted.vo", "CorrC07.vo", "TS.vo", "TSProofs.vo", "Schema.vo", "Bridge.vo",
               "BridgeProofs.vo", "Props/C07.vo"]
PROPS_FILE = "Props/C07.v"
CORR_IMPORTS = "Base Index CorrC07"
ENTRY = "cassis.cas.Cas.select_covered / select_covering / _get_feature_structures_in_range"
RULE = (
    "quick: every multiset of <=3 spans over offsets 0..3 (types rotated over a 4-type tree, decoys in a second view; random cases also index instances of built-in annotation types queried through built-in supertypes, create subtypes after a first query, index instances of them and query again, remove some of several duplicates of a span before the query, and run on a type system obtained by merge_typesystems with re-parenting "
    "and in an unrelated type) x every query span x query type in {root, leaf}, plus seeded random instances (<=60 "
    "annotations, clustered and large offsets); thorough: multisets of <=4 spans and random instances up to 2000 "
    "annotations. A case is non-trivial when some indexed annotation of the queried subtree is zero-width at an edge "
    "of the query span or equals the query span."
)
TRUSTED = [
    "Coq 8.16.1 kernel and vm_compute (no native_compute); theorems in Props/C07.v are closed under the global context",
    "hand-written model coq/Index.v of View.type_index, Cas.add insertion, the bisect window and both filters",
    "correspondence harness: harness/props/C07.py builds the real objects, harness/core.py compares inside Coq",
    "SortedKeyList.bisect_key_left/add modelled by their contract (leading keys below the probe / insort right)",
    "Python tuple comparison of a 3-tuple key with a shorter probe (proper prefix sorts first)",
    "type subtree (names of Type.descendants) is an input of the model here; it is C10's theorem that it is the subtree",
]
ASSUMPTIONS = ["annotations are well-formed (begin <= end) and the query span has begin <= end",
               "ties in (begin, end) are ordered by id() in the code: results are compared as label multisets"]

TREE = [["t.Root", "uima.tcas.Annotation"], ["t.Mid", "t.Root"], ["t.Leaf", "t.Mid"], ["t.Other", "uima.tcas.Annotation"]]
BUILTIN_TREE = [["uima.cas.AnnotationBase", "uima.cas.TOP"], ["uima.tcas.Annotation", "uima.cas.AnnotationBase"],
                ["uima.tcas.DocumentAnnotation", "uima.tcas.Annotation"]]
_TS = {}


def _subtree(sc, root, with_late=True):
    """Names of root and its transitive subtypes, from the scenario alone."""
    edges = BUILTIN_TREE + TREE + (sc.get("late", {}).get("types", []) if with_late else [])
    out, todo = [], [root]
    while todo:
        n = todo.pop()
        if n in out:
            continue
        out.append(n)
        todo.extend(c for c, p in edges if p == n)
    return out


def _ts(cassis, fresh=False, merged=False):
    if merged:
        # the same tree obtained by merge_typesystems: the first input declares t.Mid and t.Leaf directly below
        # Annotation / t.Root, the second gives them their more specific supertypes (re-parenting in the merge)
        from cassis import TypeSystem, merge_typesystems
        a, b = TypeSystem(), TypeSystem()
        for name, parent in [["t.Root", "uima.tcas.Annotation"], ["t.Mid", "uima.tcas.Annotation"], ["t.Leaf", "t.Root"],
                             ["t.Other", "uima.tcas.Annotation"]]:
            a.create_type(name, parent)
        for name, parent in TREE:
            b.create_type(name, parent)
        return merge_typesystems(a, b)
    if fresh or "ts" not in _TS:
        from cassis import TypeSystem
        ts = TypeSystem()
        for name, parent in TREE:
            ts.create_type(name, parent)
        if fresh:
            return ts
        _TS["ts"] = ts
    return _TS["ts"]


def _spans(n):
    return [(b, e) for b in range(n + 1) for e in range(b, n + 1)]


def generate(rng, tier):
    spans = _spans(3)
    types = ["t.Root", "t.Leaf", "t.Other", "t.Mid"]
    maxk = 3 if tier != "thorough" else 4
    k = 0
    if tier != "search":
        for size in range(maxk + 1):
            for ms in itertools.combinations_with_replacement(spans, size):
                for qi, q in enumerate(spans):
                    k += 1
                    adds = []
                    for j, (b, e) in enumerate(ms):
                        adds.append({"l": j + 1, "t": types[(j + k) % 3 if (k % 5) else (j + k) % 4], "v": 0, "b": b, "e": e})
                    # decoys: same spans in the other view, and the query span itself there
                    if k % 3 == 0:
                        adds.append({"l": 90, "t": "t.Root", "v": 1, "b": q[0], "e": q[1]})
                    yield {"adds": adds, "q": {"t": ["t.Root", "t.Leaf", "t.Mid"][k % 3] if k % 4 else "t.Root",
                                               "v": 0, "b": q[0], "e": q[1], "form": ["type", "name"][k % 2]}}
    n_rand = {"quick": 400, "thorough": 4000, "search": 4000}[tier]
    for r in range(n_rand):
        big = tier == "thorough" and r % 400 == 0
        n = rng.randint(0, 2000 if big else 60)
        hi = rng.choice([4, 8, 30, 10 ** 6])
        adds = []
        for j in range(n):
            b = rng.randint(0, hi)
            e = b if rng.random() < 0.3 else rng.randint(b, hi)
            adds.append({"l": j + 1, "t": rng.choice(types), "v": rng.choice([0, 0, 0, 1]), "b": b, "e": e})
        if adds and rng.random() < 0.7:
            a = rng.choice(adds)
            qb, qe = a["b"], a["e"]
            if rng.random() < 0.5 and qe > qb:
                qb = rng.randint(qb, qe)
        else:
            qb = rng.randint(0, hi)
            qe = rng.randint(qb, hi)
        sc = {"adds": adds, "q": {"t": rng.choice(types), "v": rng.choice([0, 0, 1]), "b": qb, "e": qe,
                                  "form": rng.choice(["type", "name"])}}
        kind = r % 4
        if kind == 1 and not big:
            # instances of built-in types, queried through built-in supertypes
            for a in sc["adds"]:
                if rng.random() < 0.4:
                    a["t"] = rng.choice(["uima.tcas.Annotation", "uima.tcas.DocumentAnnotation"])
            sc["q"]["t"] = rng.choice(["uima.tcas.Annotation", "uima.cas.AnnotationBase", "uima.tcas.DocumentAnnotation", "t.Root"])
        elif kind == 2 and not big:
            # query, then create subtypes below the queried subtree, index instances of them, query again
            parent = rng.choice(_subtree(sc, sc["q"]["t"], with_late=False))
            late_types = [["t.Late1", parent]]
            if rng.random() < 0.5:
                late_types.append(["t.Late2", rng.choice(["t.Late1", "t.Other", parent])])
            late_adds = []
            for j in range(rng.randint(1, 4)):
                b = rng.randint(max(0, qb - 1), qe)
                e = b if rng.random() < 0.3 else rng.randint(b, qe + 1)
                late_adds.append({"l": 5000 + j, "t": rng.choice([t for t, _p in late_types]), "v": sc["q"]["v"], "b": b, "e": e})
            sc["late"] = {"types": late_types, "adds": late_adds}
        elif kind == 3 and not big and sc["adds"]:
            # duplicates of a span of one type, then some instances are removed again: what stays indexed must be returned
            extra = []
            for a in rng.sample(sc["adds"], min(len(sc["adds"]), 3)):
                for _ in range(rng.randint(1, 2)):
                    extra.append({"l": 7000 + len(extra), "t": a["t"], "v": a["v"], "b": a["b"], "e": a["e"]})
            sc["adds"] = sc["adds"] + extra
            cands = [a["l"] for a in sc["adds"]]
            sc["removes"] = rng.sample(cands, min(len(cands), rng.randint(1, 4)))
        if kind == 0 and r % 8 == 0 and not big:
            sc["merged_ts"] = True
        if not big and rng.random() < 0.3:
            # other operations run on the CAS between the adds and the query (they must not change what the query
            # returns): serialisation and type checking through the root handle or the queried view's handle
            sc["between"] = [rng.choice(["to_xmi", "to_json", "typecheck", "select_all"]) + rng.choice(["@root", "@view"])
                             for _ in range(rng.randint(1, 2))]
        if not big and sc["adds"] and rng.random() < 0.25:
            # the query span is itself an indexed annotation of the queried view (not a free-standing one)
            own = [a for a in sc["adds"] if a["v"] == sc["q"]["v"]]
            if own:
                a = rng.choice(own)
                sc["q"]["b"], sc["q"]["e"], sc["q"]["probe"] = a["b"], a["e"], a["l"]
        yield sc


def run_impl(cassis, sc):
    from cassis import Cas
    late = sc.get("late")
    ts = _ts(cassis, fresh=bool(late), merged=bool(sc.get("merged_ts")))
    cas = Cas(typesystem=ts)
    views = [cas, cas.create_view("v2")]
    lab = {}

    def add_all(adds):
        for a in adds:
            T = ts.get_type(a["t"])
            fs = T(begin=a["b"], end=a["e"])
            views[a["v"]].add(fs)
            lab[id(fs)] = (a["l"], fs)

    def labels(res):
        return [lab[id(fs)][0] if id(fs) in lab else -1 for fs in res]

    q = sc["q"]
    Ann = ts.get_type("uima.tcas.Annotation")
    free_probe = Ann(begin=q["b"], end=q["e"])
    view = views[q["v"]]

    def query():
        targ = ts.get_type(q["t"]) if q["form"] == "type" else q["t"]
        probe = free_probe
        if q.get("probe") is not None:
            probe = [fs for (l, fs) in lab.values() if l == q["probe"]][0]
        return list(view.select_covered(targ, probe)), list(view.select_covering(targ, probe))

    add_all(sc["adds"])
    by_label = {l: fs for (l, fs) in lab.values()}
    for l in sc.get("removes", []):
        fs = by_label[l]
        views[[a["v"] for a in sc["adds"] if a["l"] == l][0]].remove(fs)
    for op in sc.get("between", []):
        name, where = op.split("@")
        h = cas if where == "root" else view
        if name == "select_all":
            h.select_all()
        else:
            getattr(h, name)()
    obs = {}
    if late:
        c0, g0 = query()
        obs["pre_covered"], obs["pre_covering"] = sorted(labels(c0)), sorted(labels(g0))
        for name, parent in late["types"]:
            ts.create_type(name, parent)
        add_all(late["adds"])
    cov, cing = query()
    obs.update({"covered": sorted(labels(cov)), "covering": sorted(labels(cing)),
                "covered_seq": [[fs.type.name, fs.begin, fs.end] for fs in cov]})
    return obs


def _all_adds(sc, with_late=True):
    gone = set(sc.get("removes", []))
    return [a for a in sc["adds"] if a["l"] not in gone] + (sc.get("late", {}).get("adds", []) if with_late else [])


def _expected(sc, rel, with_late=True):
    q = sc["q"]
    sub = _subtree(sc, q["t"], with_late)
    out = []
    for a in _all_adds(sc, with_late):
        if a["v"] != q["v"] or a["t"] not in sub:
            continue
        if rel == "covered" and q["b"] <= a["b"] and a["e"] <= q["e"]:
            out.append(a["l"])
        if rel == "covering" and a["b"] <= q["b"] and q["e"] <= a["e"]:
            out.append(a["l"])
    return sorted(out)


def oracle(cassis, sc, obs):
    if "late" in sc:
        for rel in ("covered", "covering"):
            exp = _expected(sc, rel, with_late=False)
            if obs["pre_" + rel] != exp:
                return f"select_{rel} before the late types exist: expected labels {exp[:20]} got {obs['pre_' + rel][:20]}"
    for rel in ("covered", "covering"):
        exp = _expected(sc, rel)
        if obs[rel] != exp:
            missing = sorted(set(exp) - set(obs[rel]))
            extra = sorted(set(obs[rel]) - set(exp))
            return f"select_{rel}: expected labels {exp[:20]} got {obs[rel][:20]} (missing {missing[:10]}, unexpected {extra[:10]})"
    # instances of one concrete type come in non-decreasing (begin, end)
    last = {}
    for t, b, e in obs["covered_seq"]:
        if t in last and (b, e) < last[t]:
            return f"select_covered: instances of {t} not in (begin,end) order"
        last[t] = (b, e)
    return None


def render(sc, obs):
    q = sc["q"]
    adds = [a for a in _all_adds(sc) if a["v"] == q["v"]]
    adds_t = glist([f'mkAnn {gstr(a["t"])} (mkKey {gz(a["b"])} {gz(a["e"])} {gz(a["l"])})' for a in adds])
    types_t = glist([gstr(t) for t in _subtree(sc, q["t"])])
    return (f"mkCase {adds_t} {types_t} {gz(q['b'])} {gz(q['e'])} "
            f"{glist([gz(x) for x in obs['covered']])} {glist([gz(x) for x in obs['covering']])}")


def nontrivial(sc):
    q = sc["q"]
    sub = _subtree(sc, q["t"])
    for a in _all_adds(sc):
        if a["v"] != q["v"] or a["t"] not in sub:
            continue
        if a["b"] == a["e"] and a["b"] in (q["b"], q["e"]):
            return True
        if (a["b"], a["e"]) == (q["b"], q["e"]):
            return True
    return False


def shrink_candidates(sc):
    adds = sc["adds"]
    n = len(adds)
    chunk = max(1, n // 2)
    while chunk >= 1:
        for i in range(0, n, chunk):
            cand = json.loads(json.dumps(sc))
            cand["adds"] = adds[:i] + adds[i + chunk:]
            if len(cand["adds"]) < n:
                yield cand
        if chunk == 1:
            break
        chunk //= 2


def mutate(sc, rng):
    for _ in range(20):
        c = json.loads(json.dumps(sc))
        c["q"]["b"] = max(0, c["q"]["b"] + rng.randint(-1, 1))
        c["q"]["e"] = max(c["q"]["b"], c["q"]["e"] + rng.randint(-1, 1))
        yield c


def signature(sc, msg):
    return {"what": msg.split(":")[0] if msg else ""}


def distribution(scenarios, observations):
    sizes = [len(s["adds"]) for s in scenarios]
    return {"cases": len(scenarios), "max_annotations": max(sizes or [0]),
            "zero_width_present": sum(1 for s in scenarios if any(a["b"] == a["e"] for a in s["adds"])),
            "second_view_queries": sum(1 for s in scenarios if s["q"]["v"] == 1),
            "by_query_type": {t: sum(1 for s in scenarios if s["q"]["t"] == t) for t in sorted({s["q"]["t"] for s in scenarios})},
            "with_late_subtypes": sum(1 for s in scenarios if "late" in s),
            "with_removes": sum(1 for s in scenarios if s.get("removes")),
            "with_operations_between": sum(1 for s in scenarios if s.get("between")),
            "query_span_is_indexed_annotation": sum(1 for s in scenarios if s["q"].get("probe") is not None),
            "type_system_obtained_by_merge": sum(1 for s in scenarios if s.get("merged_ts")),
            "builtin_typed_instances": sum(1 for s in scenarios if any(a["t"].startswith("uima.") for a in s["adds"])),
            "nonempty_covered": sum(1 for o in observations if o and o["covered"]),
            "nonempty_covering": sum(1 for o in observations if o and o["covering"])}

MANIFEST = {
    "level_text": "Machine-checked proof (Coq 8.16) that the modelled mechanism - per-type SortedKeyList insertion, the bisect "
                  "window with Python's prefix-tuple ordering, and the two filters - returns, for every history of adds, every "
                  "duplicate-free set of type names and every query span, exactly the covered / covering annotations as a multiset; "
                  "the model is tied to /repo on every run by evaluating it inside Coq on the cases the implementation was run on.",
    "level_note": "Trusted: Coq kernel + vm_compute; hand-written model coq/Index.v; harness building real objects and rendering "
                  "cases; bisect/insort and tuple-prefix comparison modelled by contract; the set of descendant type names is an "
                  "input here (C10 proves it is the subtree). Print Assumptions: closed under the global context.",
    "technique": "Coq proof over an executable Gallina model + in-Coq behavioural correspondence (exhaustive small scopes, random large)",
    "design_ref": "DESIGN.md section 5, C07",
}
