"""C07 — select_covered / select_covering implement the containment definitions."""
import itertools
import json

from harness.gallina import glist, gstr, gz

ID = "C07"
COQ_TARGETS = ["Index.vo", "IndexProofs.vo", "Refuted.vo", "CorrC07.vo", "TS.vo", "TSProofs.vo", "Schema.vo", "Bridge.vo",
               "BridgeProofs.vo", "Props/C07.vo"]
PROPS_FILE = "Props/C07.v"
CORR_IMPORTS = "Base Index CorrC07"
ENTRY = "cassis.cas.Cas.select_covered / select_covering / _get_feature_structures_in_range"
RULE = (
    "quick: every multiset of <=3 spans over offsets 0..3 (types rotated over a 4-type tree, decoys in a second view; random cases also index instances of built-in annotation types queried through built-in supertypes, create subtypes after a first query, index instances of them and query again, remove some of several duplicates of a span before the query, and run on a type system obtained by merge_typesystems with re-parenting "
    "and in an unrelated type) x every query span x query type in {root, leaf}, plus seeded random instances (<=60 "
    "annotations, clustered and large offsets); 300 cases over random type trees of 3..7 types whose full names come from "
    "4 packages (one empty: dot-free names) x 3 short names, so that siblings and cousins share short names, queried at "
    "any declared type or a built-in ancestor, some obtained by merge with re-parenting, some with late subtypes from the "
    "same name pool; 300 cases whose annotations reach the index through a loader (CAS with document text mixing BMP and "
    "non-BMP code points written by to_xmi / to_json and read back, queries on the CAS that was read, optionally after "
    "removes before writing and further add() calls after reading); thorough: multisets of <=4 spans and random instances up to 2000 "
    "annotations. A case is non-trivial when some indexed annotation of the queried subtree is zero-width at an edge "
    "of the query span or equals the query span."
)
TRUSTED = [
    "Coq 8.16.1 kernel and vm_compute (no native_compute); theorems in Props/C07.v are closed under the global context",
    "hand-written model coq/Index.v of View.type_index, Cas.add insertion, the bisect window and both filters",
    "correspondence harness: harness/props/C07.py builds the real objects, harness/core.py compares inside Coq",
    "SortedKeyList.bisect_key_left/add modelled by their contract (leading keys below the probe / insort right)",
    "Python tuple comparison of a 3-tuple key with a shorter probe (proper prefix sorts first)",
    "type subtree (names of Type.descendants) is an input of the model here; it is C10's theorem that it is the subtree",
    "cases read by load_cas_from_xmi / load_cas_from_json: the model takes the members of the view as a sequence of adds with "
    "their in-memory (code point) offsets, members are recognised by xmi:id = label + 10, and the oracle first confirms that "
    "the queried view holds exactly the annotations that were written (that the loaders deliver them is C01/C02's subject)",
]
ASSUMPTIONS = ["annotations are well-formed (begin <= end) and the query span has begin <= end",
               "ties in (begin, end) are ordered by id() in the code: results are compared as label multisets",
               "loaded cases: offsets lie inside the document text (0..len in code points), one sofa string per view"]

TREE = [["t.Root", "uima.tcas.Annotation"], ["t.Mid", "t.Root"], ["t.Leaf", "t.Mid"], ["t.Other", "uima.tcas.Annotation"]]
BUILTIN_TREE = [["uima.cas.AnnotationBase", "uima.cas.TOP"], ["uima.tcas.Annotation", "uima.cas.AnnotationBase"],
                ["uima.tcas.DocumentAnnotation", "uima.tcas.Annotation"]]
_TS = {}


def _subtree(sc, root, with_late=True):
    """Names of root and its transitive subtypes, from the scenario alone."""
    edges = BUILTIN_TREE + sc.get("tree", TREE) + (sc.get("late", {}).get("types", []) if with_late else [])
    out, todo = [], [root]
    while todo:
        n = todo.pop()
        if n in out:
            continue
        out.append(n)
        todo.extend(c for c, p in edges if p == n)
    return out


def _ts(cassis, fresh=False, merged=False, tree=None):
    if merged:
        # the same tree obtained by merge_typesystems: the first input declares t.Mid and t.Leaf directly below
        # Annotation / t.Root, the second gives them their more specific supertypes (re-parenting in the merge);
        # in general: the first input declares every type below its grandparent where the parent is a declared type
        from cassis import TypeSystem, merge_typesystems
        a, b = TypeSystem(), TypeSystem()
        parent_of = dict((n, p) for n, p in (tree or TREE))
        for name, parent in (tree or TREE):
            a.create_type(name, parent_of.get(parent, parent))
        for name, parent in (tree or TREE):
            b.create_type(name, parent)
        return merge_typesystems(a, b)
    if tree is not None:
        from cassis import TypeSystem
        ts = TypeSystem()
        for name, parent in tree:
            ts.create_type(name, parent)
        return ts
    if fresh or "ts" not in _TS:
        from cassis import TypeSystem
        ts = TypeSystem()
        for name, parent in TREE:
            ts.create_type(name, parent)
        if fresh:
            return ts
        _TS["ts"] = ts
    return _TS["ts"]


def _spans(n):
    return [(b, e) for b in range(n + 1) for e in range(b, n + 1)]


def generate(rng, tier):
    spans = _spans(3)
    types = ["t.Root", "t.Leaf", "t.Other", "t.Mid"]
    maxk = 3 if tier != "thorough" else 4
    k = 0
    if tier != "search":
        for size in range(maxk + 1):
            for ms in itertools.combinations_with_replacement(spans, size):
                for qi, q in enumerate(spans):
                    k += 1
                    adds = []
                    for j, (b, e) in enumerate(ms):
                        adds.append({"l": j + 1, "t": types[(j + k) % 3 if (k % 5) else (j + k) % 4], "v": 0, "b": b, "e": e})
                    # decoys: same spans in the other view, and the query span itself there
                    if k % 3 == 0:
                        adds.append({"l": 90, "t": "t.Root", "v": 1, "b": q[0], "e": q[1]})
                    yield {"adds": adds, "q": {"t": ["t.Root", "t.Leaf", "t.Mid"][k % 3] if k % 4 else "t.Root",
                                               "v": 0, "b": q[0], "e": q[1], "form": ["type", "name"][k % 2]}}
    n_rand = {"quick": 400, "thorough": 4000, "search": 4000}[tier]
    for r in range(n_rand):
        big = tier == "thorough" and r % 400 == 0
        n = rng.randint(0, 2000 if big else 60)
        hi = rng.choice([4, 8, 30, 10 ** 6])
        adds = []
        for j in range(n):
            b = rng.randint(0, hi)
            e = b if rng.random() < 0.3 else rng.randint(b, hi)
            adds.append({"l": j + 1, "t": rng.choice(types), "v": rng.choice([0, 0, 0, 1]), "b": b, "e": e})
        if adds and rng.random() < 0.7:
            a = rng.choice(adds)
            qb, qe = a["b"], a["e"]
            if rng.random() < 0.5 and qe > qb:
                qb = rng.randint(qb, qe)
        else:
            qb = rng.randint(0, hi)
            qe = rng.randint(qb, hi)
        sc = {"adds": adds, "q": {"t": rng.choice(types), "v": rng.choice([0, 0, 1]), "b": qb, "e": qe,
                                  "form": rng.choice(["type", "name"])}}
        kind = r % 4
        if kind == 1 and not big:
            # instances of built-in types, queried through built-in supertypes
            for a in sc["adds"]:
                if rng.random() < 0.4:
                    a["t"] = rng.choice(["uima.tcas.Annotation", "uima.tcas.DocumentAnnotation"])
            sc["q"]["t"] = rng.choice(["uima.tcas.Annotation", "uima.cas.AnnotationBase", "uima.tcas.DocumentAnnotation", "t.Root"])
        elif kind == 2 and not big:
            # query, then create subtypes below the queried subtree, index instances of them, query again
            parent = rng.choice(_subtree(sc, sc["q"]["t"], with_late=False))
            late_types = [["t.Late1", parent]]
            if rng.random() < 0.5:
                late_types.append(["t.Late2", rng.choice(["t.Late1", "t.Other", parent])])
            late_adds = []
            for j in range(rng.randint(1, 4)):
                b = rng.randint(max(0, qb - 1), qe)
                e = b if rng.random() < 0.3 else rng.randint(b, qe + 1)
                late_adds.append({"l": 5000 + j, "t": rng.choice([t for t, _p in late_types]), "v": sc["q"]["v"], "b": b, "e": e})
            sc["late"] = {"types": late_types, "adds": late_adds}
        elif kind == 3 and not big and sc["adds"]:
            # duplicates of a span of one type, then some instances are removed again: what stays indexed must be returned
            extra = []
            for a in rng.sample(sc["adds"], min(len(sc["adds"]), 3)):
                for _ in range(rng.randint(1, 2)):
                    extra.append({"l": 7000 + len(extra), "t": a["t"], "v": a["v"], "b": a["b"], "e": a["e"]})
            sc["adds"] = sc["adds"] + extra
            cands = [a["l"] for a in sc["adds"]]
            sc["removes"] = rng.sample(cands, min(len(cands), rng.randint(1, 4)))
        if kind == 0 and r % 8 == 0 and not big:
            sc["merged_ts"] = True
        if not big and rng.random() < 0.3:
            # other operations run on the CAS between the adds and the query (they must not change what the query
            # returns): serialisation and type checking through the root handle or the queried view's handle
            sc["between"] = [rng.choice(["to_xmi", "to_json", "typecheck", "select_all"]) + rng.choice(["@root", "@view"])
                             for _ in range(rng.randint(1, 2))]
        if not big and sc["adds"] and rng.random() < 0.25:
            # the query span is itself an indexed annotation of the queried view (not a free-standing one)
            own = [a for a in sc["adds"] if a["v"] == sc["q"]["v"]]
            if own:
                a = rng.choice(own)
                sc["q"]["b"], sc["q"]["e"], sc["q"]["probe"] = a["b"], a["e"], a["l"]
        yield sc
    # two further families, generated after everything above so that the cases above stay what they were
    for r in range({"quick": 300, "thorough": 2000, "search": 1500}[tier]):
        yield _gen_tree_case(rng, r)
    for r in range({"quick": 300, "thorough": 2000, "search": 1500}[tier]):
        yield _gen_load_case(rng, r)


ANNOTATION = "uima.tcas.Annotation"
NAME_POOL = [(p + "." + s) if p else s for p in ["lex", "morph", "lex.sub", ""] for s in ["Tok", "Span", "X"]]
# code points of 1 and of 2 UTF-16 units
CHARS_BMP, CHARS_ASTRAL = ["a", " ", "\u00e9", "\u4e2d"], ["\U0001F600", "\U00010348", "\U0001F9D1"]


def _short(name):
    return name.rsplit(".", 1)[-1]


def _shared_short_siblings(sc):
    seen = set()
    for t, p in sc.get("tree", []) + sc.get("late", {}).get("types", []):
        if (_short(t), p) in seen:
            return True
        seen.add((_short(t), p))
    return False


def _gen_adds(rng, n, hi, types, first_label=1):
    adds = []
    for j in range(n):
        b = rng.randint(0, hi)
        e = b if rng.random() < 0.3 else rng.randint(b, hi)
        adds.append({"l": first_label + j, "t": rng.choice(types), "v": rng.choice([0, 0, 0, 1]), "b": b, "e": e})
    return adds


def _gen_query(rng, adds, hi, types):
    if adds and rng.random() < 0.6:
        a = rng.choice(adds)
        qb, qe = a["b"], a["e"]
        if rng.random() < 0.5 and qe > qb:
            qb = rng.randint(qb, qe)
    else:
        qb = rng.randint(0, hi)
        qe = rng.randint(qb, hi)
    return {"t": rng.choice(types), "v": rng.choice([0, 0, 1]), "b": qb, "e": qe, "form": rng.choice(["type", "name"])}


def _gen_tree_case(rng, r):
    """Type subtrees of arbitrary shape: full names from a small pool of packages x short names (several types share a
    short name, often below one supertype; one package is empty, i.e. dot-free names), 3..7 types, any declared type or
    a built-in ancestor as the query type; optionally obtained by merge with re-parenting, optionally late subtypes."""
    pool = rng.sample(NAME_POOL, len(NAME_POOL))
    n = rng.randint(3, 7)
    tree = []
    for name in pool[:n]:
        same_short = [p for t, p in tree if _short(t) == _short(name)]
        if same_short and rng.random() < 0.6:
            parent = rng.choice(same_short)
        else:
            parent = rng.choice([ANNOTATION] + [t for t, _p in tree])
        tree.append([name, parent])
    types = [t for t, _p in tree]
    hi = rng.choice([3, 4, 8, 30])
    adds = _gen_adds(rng, rng.randint(0, 25), hi, types + ([ANNOTATION] if rng.random() < 0.3 else []))
    sc = {"tree": tree, "adds": adds, "q": _gen_query(rng, adds, hi, types + [ANNOTATION, ANNOTATION, "uima.cas.AnnotationBase"])}
    if r % 5 == 0:
        sc["merged_ts"] = True
    elif r % 5 in (1, 2):
        # late subtypes whose names come from the same pool (so they may share the short name of an older sibling)
        q = sc["q"]
        late_types = []
        for name in pool[n:n + rng.randint(1, 2)]:
            below = [t for t in _subtree(sc, q["t"], with_late=False) if t != "uima.cas.AnnotationBase"]  # need begin/end
            late_types.append([name, rng.choice(below[:8] + [t for t, _p in late_types])])
        late_adds = []
        for j in range(rng.randint(1, 4)):
            b = rng.randint(max(0, q["b"] - 1), q["e"])
            e = b if rng.random() < 0.3 else rng.randint(b, q["e"] + 1)
            late_adds.append({"l": 5000 + j, "t": rng.choice([t for t, _p in late_types]), "v": q["v"], "b": b, "e": e})
        sc["late"] = {"types": late_types, "adds": late_adds}
    if rng.random() < 0.2:
        sc["between"] = [rng.choice(["to_xmi", "to_json", "typecheck", "select_all"]) + rng.choice(["@root", "@view"])]
    return sc


def _gen_load_case(rng, r):
    """The annotations reach the index of the view through a loader: a CAS with document text (code points inside and
    outside the BMP, so serialised UTF-16 offsets differ from the offsets in memory) is built with add(), written with
    to_xmi / to_json and read back; the queries run on the CAS that was read, optionally after further add() calls."""
    hi = rng.choice([3, 4, 8, 30])
    texts = []
    for _v in range(2):
        p_astral = rng.choice([0.0, 0.3, 0.6, 1.0])
        texts.append("".join(rng.choice(CHARS_ASTRAL if rng.random() < p_astral else CHARS_BMP)
                             for _ in range(hi + rng.randint(0, 2))))
    types = [t for t, _p in TREE]
    adds = _gen_adds(rng, rng.randint(0, 30), hi, types + [ANNOTATION])
    sc = {"adds": adds, "load": {"fmt": ["xmi", "xmi", "json"][r % 3], "text": texts},
          "q": _gen_query(rng, adds, hi, types + [ANNOTATION])}
    if adds and rng.random() < 0.25:
        sc["removes"] = rng.sample([a["l"] for a in adds], min(len(adds), rng.randint(1, 3)))
    if rng.random() < 0.3:
        sc["post_adds"] = _gen_adds(rng, rng.randint(1, 4), hi, types, first_label=8000)
    if rng.random() < 0.25:
        own = [a for a in _all_adds(sc) if a["v"] == sc["q"]["v"]]
        if own:
            a = rng.choice(own)
            sc["q"]["b"], sc["q"]["e"], sc["q"]["probe"] = a["b"], a["e"], a["l"]
    return sc


ID_BASE = 10  # xmi:id of the annotation labelled l is l + ID_BASE (the two sofas take the ids 1 and 2)


def run_impl(cassis, sc):
    from cassis import Cas
    late = sc.get("late")
    load = sc.get("load")
    ts = _ts(cassis, fresh=bool(late), merged=bool(sc.get("merged_ts")), tree=sc.get("tree"))
    cas = Cas(typesystem=ts)
    views = [cas, cas.create_view("v2")]
    if load:
        for v, text in zip(views, load["text"]):
            v.sofa_string = text
    lab = {}

    def add_all(adds):
        for a in adds:
            T = ts.get_type(a["t"])
            fs = T(begin=a["b"], end=a["e"], xmiID=a["l"] + ID_BASE) if load else T(begin=a["b"], end=a["e"])
            views[a["v"]].add(fs)
            lab[id(fs)] = (a["l"], fs)

    def labels(res):
        return [lab[id(fs)][0] if id(fs) in lab else -1 for fs in res]

    q = sc["q"]
    Ann = ts.get_type("uima.tcas.Annotation")
    free_probe = Ann(begin=q["b"], end=q["e"])

    def query():
        view = views[q["v"]]
        targ = ts.get_type(q["t"]) if q["form"] == "type" else q["t"]
        probe = free_probe
        if q.get("probe") is not None:
            probe = [fs for (l, fs) in lab.values() if l == q["probe"]][0]
        return list(view.select_covered(targ, probe)), list(view.select_covering(targ, probe))

    add_all(sc["adds"])
    by_label = {l: fs for (l, fs) in lab.values()}
    for l in sc.get("removes", []):
        fs = by_label[l]
        views[[a["v"] for a in sc["adds"] if a["l"] == l][0]].remove(fs)
    for op in sc.get("between", []):
        name, where = op.split("@")
        h = cas if where == "root" else views[q["v"]]
        if name == "select_all":
            h.select_all()
        else:
            getattr(h, name)()
    obs = {}
    if load:
        # from here on the CAS under observation is the one a loader built; its members are recognised by xmi:id
        if load["fmt"] == "xmi":
            loaded = cassis.load_cas_from_xmi(cas.to_xmi(), typesystem=ts)
        else:
            loaded = cassis.load_cas_from_json(cas.to_json(), typesystem=ts)
        views = [loaded.get_view("_InitialView"), loaded.get_view("v2")]
        keep, lab = lab, {}
        for v in views:
            for fs in v.select_all():
                if fs.xmiID is not None and fs.xmiID > ID_BASE:
                    lab[id(fs)] = (fs.xmiID - ID_BASE, fs)
        add_all(sc.get("post_adds", []))
        obs["indexed"] = sorted([l, fs.type.name, fs.begin, fs.end] for (l, fs) in lab.values()
                                if any(fs is x for x in views[q["v"]].select_all()))
    if late:
        c0, g0 = query()
        obs["pre_covered"], obs["pre_covering"] = sorted(labels(c0)), sorted(labels(g0))
        for name, parent in late["types"]:
            ts.create_type(name, parent)
        add_all(late["adds"])
    cov, cing = query()
    obs.update({"covered": sorted(labels(cov)), "covering": sorted(labels(cing)),
                "covered_seq": [[fs.type.name, fs.begin, fs.end] for fs in cov]})
    return obs


def _all_adds(sc, with_late=True):
    gone = set(sc.get("removes", []))
    return ([a for a in sc["adds"] if a["l"] not in gone] + sc.get("post_adds", [])
            + (sc.get("late", {}).get("adds", []) if with_late else []))


def _expected(sc, rel, with_late=True):
    q = sc["q"]
    sub = _subtree(sc, q["t"], with_late)
    out = []
    for a in _all_adds(sc, with_late):
        if a["v"] != q["v"] or a["t"] not in sub:
            continue
        if rel == "covered" and q["b"] <= a["b"] and a["e"] <= q["e"]:
            out.append(a["l"])
        if rel == "covering" and a["b"] <= q["b"] and q["e"] <= a["e"]:
            out.append(a["l"])
    return sorted(out)


def oracle(cassis, sc, obs):
    if "load" in sc:
        # what the statement presupposes: the annotations of the scenario are what the queried view holds after loading
        exp = sorted([a["l"], a["t"], a["b"], a["e"]] for a in _all_adds(sc) if a["v"] == sc["q"]["v"])
        if obs["indexed"] != exp:
            return (f"loaded view: it does not hold the annotations that were written (expected {exp[:10]} "
                    f"got {obs['indexed'][:10]}); the queries were not judged")
    if "late" in sc:
        for rel in ("covered", "covering"):
            exp = _expected(sc, rel, with_late=False)
            if obs["pre_" + rel] != exp:
                return f"select_{rel} before the late types exist: expected labels {exp[:20]} got {obs['pre_' + rel][:20]}"
    for rel in ("covered", "covering"):
        exp = _expected(sc, rel)
        if obs[rel] != exp:
            missing = sorted(set(exp) - set(obs[rel]))
            extra = sorted(set(obs[rel]) - set(exp))
            return f"select_{rel}: expected labels {exp[:20]} got {obs[rel][:20]} (missing {missing[:10]}, unexpected {extra[:10]})"
    # instances of one concrete type come in non-decreasing (begin, end)
    last = {}
    for t, b, e in obs["covered_seq"]:
        if t in last and (b, e) < last[t]:
            return f"select_covered: instances of {t} not in (begin,end) order"
        last[t] = (b, e)
    return None


def render(sc, obs):
    q = sc["q"]
    adds = [a for a in _all_adds(sc) if a["v"] == q["v"]]
    adds_t = glist([f'mkAnn {gstr(a["t"])} (mkKey {gz(a["b"])} {gz(a["e"])} {gz(a["l"])})' for a in adds])
    types_t = glist([gstr(t) for t in _subtree(sc, q["t"])])
    return (f"mkCase {adds_t} {types_t} {gz(q['b'])} {gz(q['e'])} "
            f"{glist([gz(x) for x in obs['covered']])} {glist([gz(x) for x in obs['covering']])}")


def nontrivial(sc):
    q = sc["q"]
    sub = _subtree(sc, q["t"])
    for a in _all_adds(sc):
        if a["v"] != q["v"] or a["t"] not in sub:
            continue
        if a["b"] == a["e"] and a["b"] in (q["b"], q["e"]):
            return True
        if (a["b"], a["e"]) == (q["b"], q["e"]):
            return True
    return False


def shrink_candidates(sc):
    adds = sc["adds"]
    n = len(adds)
    chunk = max(1, n // 2)
    while chunk >= 1:
        for i in range(0, n, chunk):
            cand = json.loads(json.dumps(sc))
            cand["adds"] = adds[:i] + adds[i + chunk:]
            if len(cand["adds"]) < n:
                yield cand
        if chunk == 1:
            break
        chunk //= 2


def mutate(sc, rng):
    for _ in range(20):
        c = json.loads(json.dumps(sc))
        c["q"]["b"] = max(0, c["q"]["b"] + rng.randint(-1, 1))
        c["q"]["e"] = max(c["q"]["b"], c["q"]["e"] + rng.randint(-1, 1))
        yield c


def signature(sc, msg):
    return {"what": msg.split(":")[0] if msg else ""}


def distribution(scenarios, observations):
    sizes = [len(s["adds"]) for s in scenarios]
    return {"cases": len(scenarios), "max_annotations": max(sizes or [0]),
            "zero_width_present": sum(1 for s in scenarios if any(a["b"] == a["e"] for a in s["adds"])),
            "second_view_queries": sum(1 for s in scenarios if s["q"]["v"] == 1),
            "by_query_type": {t: sum(1 for s in scenarios if s["q"]["t"] == t) for t in sorted({s["q"]["t"] for s in scenarios})},
            "with_late_subtypes": sum(1 for s in scenarios if "late" in s),
            "with_removes": sum(1 for s in scenarios if s.get("removes")),
            "with_operations_between": sum(1 for s in scenarios if s.get("between")),
            "query_span_is_indexed_annotation": sum(1 for s in scenarios if s["q"].get("probe") is not None),
            "random_type_tree": sum(1 for s in scenarios if "tree" in s),
            "siblings_sharing_a_short_name": sum(1 for s in scenarios if "tree" in s and _shared_short_siblings(s)),
            "dot_free_type_names": sum(1 for s in scenarios if any("." not in t for t, _p in s.get("tree", []))),
            "read_back_from_xmi": sum(1 for s in scenarios if s.get("load", {}).get("fmt") == "xmi"),
            "read_back_from_json": sum(1 for s in scenarios if s.get("load", {}).get("fmt") == "json"),
            "read_back_with_non_bmp_text": sum(1 for s in scenarios if "load" in s and any(ord(c) > 0xFFFF for c in s["load"]["text"][s["q"]["v"]])),
            "type_system_obtained_by_merge": sum(1 for s in scenarios if s.get("merged_ts")),
            "builtin_typed_instances": sum(1 for s in scenarios if any(a["t"].startswith("uima.") for a in s["adds"])),
            "nonempty_covered": sum(1 for o in observations if o and o["covered"]),
            "nonempty_covering": sum(1 for o in observations if o and o["covering"])}

MANIFEST = {
    "level_text": "Machine-checked proof (Coq 8.16) that the modelled mechanism - per-type SortedKeyList insertion, the bisect "
                  "window with Python's prefix-tuple ordering, and the two filters - returns, for every history of adds, every "
                  "duplicate-free set of type names and every query span, exactly the covered / covering annotations as a multiset; "
                  "the model is tied to /repo on every run by evaluating it inside Coq on the cases the implementation was run on.",
    "level_note": "Trusted: Coq kernel + vm_compute; hand-written model coq/Index.v; harness building real objects and rendering "
                  "cases; bisect/insort and tuple-prefix comparison modelled by contract; the set of descendant type names is an "
                  "input here (C10 proves it is the subtree). Print Assumptions: closed under the global context.",
    "technique": "Coq proof over an executable Gallina model + in-Coq behavioural correspondence (exhaustive small scopes, random large)",
    "design_ref": "DESIGN.md section 5, C07",
}
