"""C06 — select / select_all return exactly the indexed instances of a type subtree, after any history."""
import itertools
import json
import os
import re

ID = "C06"
COQ_TARGETS = ["Select.vo", "SelectProofs.vo", "CorrC06.vo", "Props/C06.vo"]
PROPS_FILE = "Props/C06.v"
CORR_IMPORTS = "Base Index Select CorrC06"
OPEN_SCOPES = ["string_scope", "list_scope", "Z_scope"]
ENTRY = "cassis.cas.Cas.add / add_all / remove / create_view / get_view / select / select_all, TypeSystem.create_type"
SHARD_JOBS = 10
RULE = (
    "quick: every history of length <= 4 over a 9-letter alphabet (add / twin add / add_all / remove present / remove "
    "present-only-in-the-other-view / remove of a twin / create_view / create_type by short supertype name / add of the "
    "new type) on the tree {t.A < Annotation, t.B < t.A, u.A < TOP}, each followed by select_all and select probes through "
    "both handles (type object, full name, unique and ambiguous short name, Type object of a second type system that holds "
    "t.D and a dot-free D from the start; every fourth history on a lenient CAS), plus 320 seeded random histories of up to 60 "
    "operations over random trees (depth <= 5, fan-out <= 3, short-name collisions, dot-free names, annotation and "
    "non-annotation types, types created before and in the middle of the history, 1-3 views, several handles per view, "
    "deprecated aliases, lenient and strict CAS, structures and Type objects of a second type system that holds the whole "
    "universe plus up to 3 types of its own); thorough: length <= 5 and 3000 random histories. A case is non-trivial when "
    "it queries after a failing remove, after a create_type that followed an add, or with two populated views."
)
TRUSTED = [
    "Coq 8.16.1 kernel and vm_compute (no native_compute); theorems in Props/C06.v are closed under the global context",
    "hand-written model coq/Select.v: View._indices as assoc list of per-type sorted lists (Index.v), defaultdict side "
    "effects, Cas.add's lenient check, SortedKeyList.add/remove by contract (insort right; bisect_left then key match), "
    "Type.descendants with fuel, TypeSystem.get_type name resolution, create_type as leaf insertion in a parent map; "
    "a Type object of another TypeSystem is that system's create_type history, select walks its tree",
    "set iteration order of {c.name for c in descendants} is an argument of the model's select; theorems quantify over it",
    "correspondence harness: harness/props/C06.py drives the public API, harness/core.py compares inside Coq",
    "an object's identity is its label; type and offsets of a structure do not change while it is indexed "
    "(the history alphabet has no feature assignment)",
    "xmiID assignment and annotation.sofa assignment inside Cas.add are not modelled (no query of C06 reads them; C08/C09)",
]
ASSUMPTIONS = [
    "ties in (begin, end) and all non-annotation structures of one type are ordered by id(): results are compared per "
    "concrete type as (begin, end) sequences and as label multisets",
    "the second type system of a scenario is complete before the history starts (no create_type on it in mid-history; "
    "the model and the theorems allow any)",
]

MAXSIZE = 9223372036854775807
TOP = "uima.cas.TOP"
ANNO = "uima.tcas.Annotation"
BUILTIN = [
    ("uima.cas.NULL", TOP), ("uima.cas.Boolean", TOP), ("uima.cas.Byte", TOP), ("uima.cas.Short", TOP),
    ("uima.cas.Integer", TOP), ("uima.cas.Long", TOP), ("uima.cas.Float", TOP), ("uima.cas.Double", TOP),
    ("uima.cas.String", TOP), ("uima.cas.ArrayBase", TOP), ("uima.cas.FSArray", "uima.cas.ArrayBase"),
    ("uima.cas.BooleanArray", "uima.cas.ArrayBase"), ("uima.cas.ByteArray", "uima.cas.ArrayBase"),
    ("uima.cas.ShortArray", "uima.cas.ArrayBase"), ("uima.cas.LongArray", "uima.cas.ArrayBase"),
    ("uima.cas.DoubleArray", "uima.cas.ArrayBase"), ("uima.cas.FloatArray", "uima.cas.ArrayBase"),
    ("uima.cas.IntegerArray", "uima.cas.ArrayBase"), ("uima.cas.StringArray", "uima.cas.ArrayBase"),
    ("uima.cas.ListBase", TOP), ("uima.cas.FSList", "uima.cas.ListBase"), ("uima.cas.EmptyFSList", "uima.cas.FSList"),
    ("uima.cas.NonEmptyFSList", "uima.cas.FSList"), ("uima.cas.FloatList", "uima.cas.ListBase"),
    ("uima.cas.EmptyFloatList", "uima.cas.FloatList"), ("uima.cas.NonEmptyFloatList", "uima.cas.FloatList"),
    ("uima.cas.IntegerList", "uima.cas.ListBase"), ("uima.cas.EmptyIntegerList", "uima.cas.IntegerList"),
    ("uima.cas.NonEmptyIntegerList", "uima.cas.IntegerList"), ("uima.cas.StringList", "uima.cas.ListBase"),
    ("uima.cas.EmptyStringList", "uima.cas.StringList"), ("uima.cas.NonEmptyStringList", "uima.cas.StringList"),
    ("uima.cas.Sofa", TOP), ("uima.cas.AnnotationBase", TOP), (ANNO, "uima.cas.AnnotationBase"),
    ("uima.tcas.DocumentAnnotation", ANNO),
]
FINAL = ["uima.cas.BooleanArray", "uima.cas.ByteArray", "uima.cas.DoubleArray", "uima.cas.FloatArray",
         "uima.cas.IntegerArray", "uima.cas.LongArray", "uima.cas.ShortArray", "uima.cas.StringArray"]
ERR = {"ValueError": "EValue", "RuntimeError": "ERuntime", "KeyError": "EKey", "TypeNotFoundError": "ETypeNotFound"}

# ------------------------------------------------------------------------------------------------ scenarios
# sc = {"lenient": bool, "univ": [[name, parent]...] (every user type that may appear, parents first),
#       "funiv": [[name, supertype]...] create_type calls that build the second type system (default: univ),
#       "fs": [[label, type, begin|None, end|None]...], "ops": [...], optional "kind"}
# ops: ["add", h, label, alias] ["add_all", h, [labels], alias] ["remove", h, label, alias] ["create_view", h, name]
#      ["get_view", h, name] ["create_type", name, sup] ["select", h, type name, form, order] ["select_all", h]
# a handle number is taken modulo the number of handles that exist at that point, "type" form falls back to the full
# name when the type does not exist yet: every subsequence of a history is again a history (shrinking).
# select forms: "type" (Type object of the CAS's type system), "full", "short", "ftype" (Type object of the second one).

EX_UNIV = [["t.A", ANNO], ["t.B", "t.A"], ["u.A", TOP], ["t.D", "t.B"]]
EX_FUNIV = EX_UNIV + [["D", "u.A"]]     # the second type system: the same tree and a dot-free name (short name of t.D)
EX_FS = [[1, "t.A", 0, 1], [2, "t.B", 0, 1], [3, "t.A", 0, 1], [4, "u.A", None, None], [5, "t.D", 0, 0]]
EX_PRE = [["create_type", "t.A", ANNO], ["create_type", "t.B", "t.A"], ["create_type", "u.A", TOP]]
EX_LETTERS = [
    ["add", 0, 1, 0], ["add", 1, 3, 1], ["add_all", 1, [2, 4], 0], ["remove", 0, 1, 0], ["remove", 1, 1, 1],
    ["remove", 0, 3, 0], ["create_view", 0, "v"], ["create_type", "t.D", "B"], ["add", 1, 5, 0],
]


def _ex_probes(k):
    p = [["select_all", 0], ["select_all", 1], ["select", 0, "t.A", ["type", "full"][k % 2], []],
         ["select", 1, "t.B", "short", []]]
    if k % 7 == 0:
        p.append(["select", 0, "t.A", "short", []])          # "A" is ambiguous: t.A, u.A
    if k % 5 == 0:
        p.append(["select", 1, ANNO, ["short", "type", "full"][k % 3], ["t.B", "t.A", ANNO]])
    if k % 11 == 0:
        p.append(["select", 0, TOP, "full", []])
    if k % 3 == 1:                                            # Type object of the second type system
        p.append(["select", (k // 3) % 2, ["t.A", "t.D", "D", "t.B", ANNO][(k // 6) % 5], "ftype", []])
    return p


def _exhaustive(maxlen):
    k = 0
    for n in range(maxlen + 1):
        for word in itertools.product(range(len(EX_LETTERS)), repeat=n):
            k += 1
            yield {"kind": "ex", "lenient": k % 4 == 1, "univ": EX_UNIV, "funiv": EX_FUNIV, "fs": EX_FS, "own": k % 3 == 0,
                   "ops": EX_PRE + [EX_LETTERS[i] for i in word] + _ex_probes(k), "npre": 3, "nprobe": len(_ex_probes(k)), "k": k}


def _random_history(rng, maxops):
    # type universe: a random forest below predefined roots, short names from a small pool so that they collide
    roots = [ANNO, ANNO, TOP, "uima.cas.AnnotationBase", "uima.tcas.DocumentAnnotation"]
    univ, depth, kids = [], {}, {}
    want = rng.randint(2, 12)
    pool = ["X", "Y", "Z", "W", "V", "Q"]
    tries = 0
    while len(univ) < want and tries < 100:
        tries += 1
        name = rng.choice(["t.", "u.", "t.n.", "t.", "u.", "t.n.", ""]) + rng.choice(pool) + rng.choice(["", "", "1", "2"])
        if any(name == u[0] for u in univ):
            continue
        cands = [r for r in roots] + [u[0] for u in univ if depth[u[0]] < 5 and kids.get(u[0], 0) < 3]
        par = rng.choice(cands)
        univ.append([name, par])
        depth[name] = depth.get(par, 0) + 1
        kids[par] = kids.get(par, 0) + 1
    parent = dict(BUILTIN)
    parent.update({n: p for n, p in univ})
    # the second type system: the whole universe and a few types of its own (dot-free names too: such a name can be
    # the short name of a type of the CAS)
    fextra = []
    for _ in range(rng.choice([0, 1, 2, 3])):
        name = rng.choice(["", "", "x.", "t."]) + rng.choice(pool) + rng.choice(["", "", "1"])
        if any(name == u[0] for u in univ + fextra):
            continue
        fextra.append([name, rng.choice(roots + [u[0] for u in univ + fextra])])
    funiv = univ + fextra
    fparent = dict(parent)
    fparent.update({n: p for n, p in fextra})

    def is_anno(t):
        while t is not None:
            if t == ANNO:
                return True
            t = fparent.get(t)
        return False

    # feature structures: clustered offsets (ties), twins, unset offsets, non-annotation types
    fstab = []
    nfs = rng.randint(1, 18)
    tpool = [u[0] for u in univ] + [ANNO] + ([TOP] if rng.random() < 0.3 else []) + [u[0] for u in fextra]
    hi = rng.choice([2, 3, 6, 1000])
    for l in range(1, nfs + 1):
        if fstab and rng.random() < 0.2:
            src = rng.choice(fstab)
            fstab.append([l, src[1], src[2], src[3]])       # twin
            continue
        t = rng.choice(tpool)
        if is_anno(t) and rng.random() < 0.92:
            b = rng.randint(0, hi)
            e = b if rng.random() < 0.25 else rng.randint(b, hi)
            fstab.append([l, t, b, e])
        else:
            fstab.append([l, t, None, None])
    labels = [f[0] for f in fstab]

    ops = []
    created = set()
    builtin_names = {TOP} | {n for n, _ in BUILTIN}
    p_pre = rng.choice([0.3, 0.7, 0.9, 1.0])
    for n, p in univ:                                        # parents first: creation order of the universe
        if (p in created or p in builtin_names) and rng.random() < p_pre:
            ops.append(["create_type", n, p])
            created.add(n)
    vnames = ["v1", "v2"]
    nh = 1
    bags = {}                                                # approximate, only to aim the removes
    nops = rng.randint(1, maxops)
    for _ in range(nops):
        r = rng.random()
        h = rng.randint(0, max(0, nh - 1)) if rng.random() < 0.9 else rng.randint(0, 5)
        if r < 0.30:
            l = rng.choice(labels)
            ops.append(["add", h, l, int(rng.random() < 0.2)])
            bags.setdefault(h, []).append(l)
        elif r < 0.37:
            ls = [rng.choice(labels) for _ in range(rng.randint(0, 4))]
            ops.append(["add_all", h, ls, int(rng.random() < 0.3)])
            bags.setdefault(h, []).extend(ls)
        elif r < 0.54:
            q = rng.random()
            mine = bags.get(h, [])
            other = [l for hh, b in bags.items() if hh != h for l in b]
            if q < 0.6 and mine:
                l = rng.choice(mine)
                mine.remove(l)
            elif q < 0.85 and other:
                l = rng.choice(other)
            else:
                l = rng.choice(labels)
            ops.append(["remove", h, l, int(rng.random() < 0.2)])
        elif r < 0.59:
            ops.append(["create_view", h, rng.choice(vnames)])
            nh += 1
        elif r < 0.63:
            ops.append(["get_view", h, rng.choice(vnames + ["_InitialView", "nope"])])
            nh += 1
        elif r < 0.71:
            todo = [u for u in univ if u[0] not in created]
            q = rng.random()
            ready = [u for u in todo if u[1] in created or u[1] in builtin_names]
            if todo and q < 0.75:
                n, p = rng.choice(ready) if ready and rng.random() < 0.85 else rng.choice(todo)
                sup = p.split(".")[-1] if rng.random() < 0.25 else p
                ops.append(["create_type", n, sup])
                created.add(n)
            elif q < 0.85 and created:
                ops.append(["create_type", rng.choice(sorted(created)), ANNO])          # duplicate: ValueError
            elif q < 0.90:
                fin = rng.choice(FINAL)                                                # final supertype: ValueError
                ops.append(["create_type", "t.Fin", fin if rng.random() < 0.5 else fin.split(".")[-1]])
            elif q < 0.94:
                ops.append(["create_type", rng.choice([ANNO, TOP, "uima.cas.Sofa"]), TOP])  # predefined name: ValueError
            else:
                ops.append(["create_type", "t.Orphan", "no.Such"])                     # TypeNotFoundError
        elif r < 0.90:
            t = rng.choice(tpool + [ANNO, TOP, "uima.cas.AnnotationBase"] + ([u[0] for u in univ] * 2))
            form = rng.choice(["type", "full", "short", "ftype"])
            order = []
            if rng.random() < 0.2:
                tree = fparent if form == "ftype" else parent
                sub = [n for n in tree if _below(tree, n, t)]
                rng.shuffle(sub)
                order = sub
            ops.append(["select", h, t, form, order])
        else:
            ops.append(["select_all", h])
    # closing probes so that every history is observed
    for h in range(min(nh, 3)):
        ops.append(["select_all", h])
        ops.append(["select", h, rng.choice([ANNO, TOP]), rng.choice(["type", "full"]), []])
    return {"kind": "rnd", "lenient": rng.random() < 0.3, "univ": univ, "funiv": funiv, "fs": fstab, "ops": ops}


def _below(parent, n, t):
    while n is not None:
        if n == t:
            return True
        n = parent.get(n)
    return False


def generate(rng, tier):
    if tier != "search":
        yield from _exhaustive(5 if tier == "thorough" else 4)
    n_rand = {"quick": 320, "thorough": 3000, "search": 3000}[tier]
    for r in range(n_rand):
        yield _random_history(rng, 60 if r % 4 else 25)


# ------------------------------------------------------------------------------------------------ implementation
_FTS = {}


def _funiv(sc):
    return sc.get("funiv") or sc["univ"]


def _fparent(sc):
    """Supertype map of the second type system (every create_type of funiv succeeds: checked in _foreign)."""
    fp = {TOP: None}
    fp.update(dict(BUILTIN))
    for n, p in _funiv(sc):
        fp[n] = p
    return fp


def _foreign(univ):
    """A second type system holding every type of the universe: structures whose type the CAS's own type system does
    not (yet) have are instances of its types, and its Type objects are passed to select."""
    key = json.dumps(univ)
    if key not in _FTS:
        from cassis import TypeSystem
        if len(_FTS) > 50:
            _FTS.clear()
        fts = TypeSystem()
        for n, p in univ:
            assert fts.create_type(n, p).supertype.name == p       # full supertype names: the oracle's map is the tree
        _FTS[key] = fts
    return _FTS[key]


def run_impl(cassis, sc):
    from cassis import Cas, TypeSystem
    ts = TypeSystem()
    fts = _foreign(_funiv(sc))
    cas = Cas(typesystem=ts, lenient=bool(sc["lenient"]))
    handles = [cas]
    table = {f[0]: f for f in sc["fs"]}
    objs, lab_of = {}, {}
    # instantiating a Type of a fresh type system compiles a class (1 ms): two thirds of the short exhaustive histories
    # take all their structures from the cached second type system (same type names; the CAS only looks at names)
    own = sc.get("own", True)

    def obj(l):
        if l not in objs:
            _, t, b, e = table[l]
            T = ts.get_type(t) if own and ts.contains_type(t, True) else fts.get_type(t)
            o = T() if b is None else T(begin=b, end=e)
            objs[l] = o
            lab_of[id(o)] = l
        return objs[l]

    def canon(res):
        groups = {}
        for x in res:
            b, e = getattr(x, "begin", None), getattr(x, "end", None)
            span = [b, e] if isinstance(b, int) and isinstance(e, int) else [MAXSIZE, MAXSIZE]
            g = groups.setdefault(x.type.name, ([], []))
            g[0].append(span)
            g[1].append(lab_of.get(id(x), -1))
        return [[t, groups[t][0], sorted(groups[t][1])] for t in sorted(groups)]

    obs, eh = [], []
    for op in sc["ops"]:
        kind = op[0]
        h = None
        if kind != "create_type":
            h = op[1] % len(handles)
        eh.append(h)
        try:
            if kind == "add":
                c = handles[h]
                (c.add_annotation if op[3] else c.add)(obj(op[2]))
                obs.append(["ok"])
            elif kind == "add_all":
                c = handles[h]
                (c.add_annotations if op[3] else c.add_all)([obj(l) for l in op[2]])
                obs.append(["ok"])
            elif kind == "remove":
                c = handles[h]
                (c.remove_annotation if op[3] else c.remove)(obj(op[2]))
                obs.append(["ok"])
            elif kind == "create_view":
                v = handles[h].create_view(op[2])
                handles.append(v)
                obs.append(["h", len(handles) - 1])
            elif kind == "get_view":
                v = handles[h].get_view(op[2])
                handles.append(v)
                obs.append(["h", len(handles) - 1])
            elif kind == "create_type":
                ts.create_type(op[1], op[2])
                obs.append(["ok"])
            elif kind == "select":
                t, form = op[2], op[3]
                if form == "type" and ts.contains_type(t, True):
                    arg = ts.get_type(t)
                elif form == "ftype" and fts.contains_type(t, True):
                    arg = fts.get_type(t)
                elif form == "short":
                    arg = t.split(".")[-1]
                else:
                    arg = t
                obs.append(["list", canon(list(handles[h].select(arg)))])
            elif kind == "select_all":
                obs.append(["list", canon(list(handles[h].select_all()))])
            else:
                raise AssertionError(kind)
        except AssertionError:
            raise
        except Exception as e:  # noqa: the kind of exception is the observation
            obs.append(["err", type(e).__name__])
    return {"obs": obs, "eh": eh}


# ------------------------------------------------------------------------------------------------ oracle
def _resolve(types, s):
    if s in types:
        return s
    if "." in s:
        return None
    c = [n for n in types if n.split(".")[-1] == s]
    return c[0] if len(c) == 1 else None


def expected(sc):
    """The property statement as bookkeeping over the history: a bag of labels per view, a parent map, handles."""
    types = {TOP: None}
    types.update(dict(BUILTIN))
    bags = {"_InitialView": []}
    handles = ["_InitialView"]
    table = {f[0]: f for f in sc["fs"]}
    fparent = _fparent(sc)
    out = []
    for op in sc["ops"]:
        kind = op[0]
        v = handles[op[1] % len(handles)] if kind != "create_type" else None
        if kind in ("add", "add_all"):
            ls = [op[2]] if kind == "add" else op[2]
            res = ("ok",)
            for l in ls:
                if sc["lenient"] or table[l][1] in types:
                    bags[v].append(l)
                else:
                    res = ("err", "RuntimeError")
                    break
            out.append(res)
        elif kind == "remove":
            if op[2] in bags[v]:
                bags[v].remove(op[2])
                out.append(("ok",))
            else:
                out.append(("err", "ValueError"))
        elif kind == "create_view":
            if op[2] in bags:
                out.append(("err", "ValueError"))
            else:
                bags[op[2]] = []
                handles.append(op[2])
                out.append(("h", len(handles) - 1))
        elif kind == "get_view":
            if op[2] in bags:
                handles.append(op[2])
                out.append(("h", len(handles) - 1))
            else:
                out.append(("err", "KeyError"))
        elif kind == "create_type":
            n, sup = op[1], op[2]
            if n in types:
                out.append(("err", "ValueError"))
            elif _resolve(types, sup) is None:
                out.append(("err", "TypeNotFoundError"))
            elif _resolve(types, sup) in FINAL:
                out.append(("err", "ValueError"))
            else:
                types[n] = _resolve(types, sup)
                out.append(("ok",))
        elif kind == "select":
            t, form = op[2], op[3]
            if form == "ftype" and t in fparent:
                # a Type object is T itself: the subtree is the one of the type system it belongs to, and whether the
                # CAS's own type system knows that name (or something else by that name) plays no part
                out.append(("list", sorted(l for l in bags[v] if _below(fparent, table[l][1], t))))
                continue
            if form == "type" and t in types:
                T = t
            else:
                T = _resolve(types, t.split(".")[-1] if form == "short" else t)
            if T is None:
                out.append(("err", "TypeNotFoundError"))
            else:
                out.append(("list", sorted(l for l in bags[v] if _below(types, table[l][1], T))))
        elif kind == "select_all":
            out.append(("list", sorted(bags[v])))
    return out


def oracle(cassis, sc, obs):
    table = {f[0]: f for f in sc["fs"]}
    exp = expected(sc)
    for i, (op, e, o) in enumerate(zip(sc["ops"], exp, obs["obs"])):
        where = f"op {i} {op[0]}"
        if e[0] != "list":
            if list(e) != list(o):
                what = "remove-absent" if op[0] == "remove" and e[0] == "err" else \
                       ("remove-present" if op[0] == "remove" else op[0])
                return f"{what}: {where}: expected {list(e)} got {o if o[0] != 'list' else 'a result list'}"
            continue
        q = "select_all" if op[0] == "select_all" else "select"
        if o[0] != "list":
            return f"{q}: {where}: expected labels {e[1][:20]} got {o}"
        got = []
        for t, spans, labs in o[1]:
            if -1 in labs:
                return f"{q}: {where}: returned an object that was never handed to this CAS"
            for l in labs:
                if table[l][1] != t:
                    return f"{q}: {where}: label {l} of type {table[l][1]} listed under {t}"
            want_spans = sorted([[table[l][2], table[l][3]] if table[l][2] is not None else [MAXSIZE, MAXSIZE] for l in labs])
            if sorted(spans) != want_spans:
                return f"{q}: {where}: offsets of type {t} are {spans}, the structures have {want_spans}"
            if spans != sorted(spans):
                return f"{q}-order: {where}: instances of {t} not in non-decreasing (begin, end): {spans[:12]}"
            got.extend(labs)
        if sorted(got) != e[1]:
            missing = sorted(set(e[1]) - set(got))
            extra = sorted(set(got) - set(e[1]))
            dup = sorted(l for l in set(got) if got.count(l) != e[1].count(l) and l in e[1])
            return (f"{q}: {where} {op[2] if q == 'select' else ''}: expected labels {e[1][:20]} got {sorted(got)[:20]} "
                    f"(missing {missing[:8]}, unexpected {extra[:8]}, wrong multiplicity {dup[:8]})")
    if len(obs["obs"]) != len(exp):
        return "history not fully executed"
    return None


# ------------------------------------------------------------------------------------------------ Gallina
def _s(x):
    assert all(32 <= ord(c) < 127 and c != '"' for c in x)
    return '"' + x + '"'


def _z(i):
    return f"({i})" if i < 0 else str(i)


def _fs(table, l):
    _, t, b, e = table[l]
    return f"(Fn {_z(l)} {_s(t)})" if b is None else f"(F {_z(l)} {_s(t)} {_z(b)} {_z(e)})"


def _gobs(o):
    if o[0] == "ok":
        return "ID"
    if o[0] == "err":
        return "IE " + ERR.get(o[1], "EType")       # EType: a kind the model never produces
    if o[0] == "h":
        return f"IH {o[1]}"
    groups = []
    for t, spans, labs in o[1]:
        sp = ";".join(f"({_z(b)},{_z(e)})" for b, e in spans)
        groups.append(f"({_s(t)},[{sp}],[{';'.join(_z(l) for l in labs)}])")
    return "IL [" + ";".join(groups) + "]"


def _gop(table, op, h, ts_known, fknown=(), fu="[]"):
    k = op[0]
    if k == "add":
        return f"A {h} {_fs(table, op[2])}"
    if k == "add_all":
        return f"AA {h} [{';'.join(_fs(table, l) for l in op[2])}]"
    if k == "remove":
        return f"Rm {h} {_fs(table, op[2])}"
    if k == "create_view":
        return f"CV {_s(op[2])}"
    if k == "get_view":
        return f"GV {_s(op[2])}"
    if k == "create_type":
        return f"CT {_s(op[1])} {_s(op[2])}"
    if k == "select":
        t, form = op[2], op[3]
        if form == "type" and ts_known(t):
            q = f"(Ty {_s(t)})"
        elif form == "ftype" and t in fknown:
            q = f"(Fo {fu} {_s(t)})"
        elif form == "short":
            q = f"(Nm {_s(t.split('.')[-1])})"
        else:
            q = f"(Nm {_s(t)})"
        return f"Sl {h} {q} [{';'.join(_s(x) for x in op[4])}]"
    if k == "select_all":
        return f"Sa {h}"
    raise AssertionError(k)


def render(sc, obs):
    table = {f[0]: f for f in sc["fs"]}
    # which types the CAS's type system holds at each point is read off the implementation's own answers
    known = {TOP} | {n for n, _ in BUILTIN}
    fknown = set(_fparent(sc))
    ex = sc.get("kind") == "ex" and _funiv(sc) == EX_FUNIV
    uses_f = any(op[0] == "select" and op[3] == "ftype" and op[2] in fknown for op in sc["ops"])
    ops_t, obs_t = [], []
    for op, h, o in zip(sc["ops"], obs["eh"], obs["obs"]):
        ops_t.append(_gop(table, op, h, lambda t: t in known, fknown, "ex_fu" if ex else "fu"))
        obs_t.append(_gobs(o))
        if op[0] == "create_type" and o[0] == "ok":
            known.add(op[1])
    if sc.get("kind") == "ex":
        npre, npro = sc["npre"], sc["nprobe"]
        mid = ops_t[npre:len(ops_t) - npro]
        ops_s = f"(ex_pre ++ [{';'.join(mid)}] ++ [{';'.join(ops_t[len(ops_t) - npro:])}])"
    else:
        ops_s = "[" + ";".join(ops_t) + "]"
    if uses_f and not ex:
        fu = ";".join(f"({_s(n)},{_s(p)})" for n, p in _funiv(sc))
        ops_s = f"(let fu := [{fu}] in {ops_s})"
    return f"mkCase {'true' if sc['lenient'] else 'false'} {ops_s} [{';'.join(obs_t)}]"


# ------------------------------------------------------------------------------------------------ evidence helpers
def nontrivial(sc):
    exp = expected(sc)
    failed_remove = added = created_after_add = False
    populated = set()
    for op, e in zip(sc["ops"], exp):
        if op[0] == "remove" and e[0] == "err":
            failed_remove = True
        if op[0] in ("add", "add_all") and e[0] == "ok":
            added = True
        if op[0] == "create_type" and e[0] == "ok" and added:
            created_after_add = True
        if op[0] in ("select", "select_all") and e[0] == "list":
            if e[1]:
                populated.add(op[1])
            if failed_remove or created_after_add or len(populated) > 1:
                return True
    return False


def shrink_candidates(sc):
    ops = sc["ops"]
    n = len(ops)
    chunk = max(1, n // 2)
    while chunk >= 1:
        for i in range(0, n, chunk):
            cand = json.loads(json.dumps(sc))
            cand["ops"] = ops[:i] + ops[i + chunk:]
            cand["kind"] = "rnd"
            if len(cand["ops"]) < n:
                yield cand
        if chunk == 1:
            break
        chunk //= 2
    used = set()
    for op in ops:
        if op[0] in ("add", "remove"):
            used.add(op[2])
        if op[0] == "add_all":
            used.update(op[2])
    if len(used) < len(sc["fs"]):
        cand = json.loads(json.dumps(sc))
        cand["fs"] = [f for f in sc["fs"] if f[0] in used]
        cand["kind"] = "rnd"
        yield cand


def mutate(sc, rng):
    for _ in range(20):
        c = json.loads(json.dumps(sc))
        c["kind"] = "rnd"
        if c["ops"] and rng.random() < 0.5:
            del c["ops"][rng.randrange(len(c["ops"]))]
        c["ops"].append(["select_all", rng.randint(0, 2)])
        yield c


def signature(sc, msg):
    return {"what": (msg or "").split(":")[0]}


def distribution(scenarios, observations):
    kinds = {}
    errs = {}
    nops = []
    forms = {}
    f_differs = 0
    for s, o in zip(scenarios, observations):
        nops.append(len(s["ops"]))
        for op in s["ops"]:
            kinds[op[0]] = kinds.get(op[0], 0) + 1
            if op[0] == "select":
                forms[op[3]] = forms.get(op[3], 0) + 1
        if any(op[0] == "select" and op[3] == "ftype" for op in s["ops"]):
            # foreign Type object whose answer is not the one the same name gives through the CAS's own type system
            alt = json.loads(json.dumps(s))
            for op in alt["ops"]:
                if op[0] == "select" and op[3] == "ftype":
                    op[3] = "full"
            f_differs += sum(1 for a, b, op in zip(expected(s), expected(alt), s["ops"])
                             if op[0] == "select" and op[3] == "ftype" and a != b)
        if o:
            for x in o["obs"]:
                if x[0] == "err":
                    errs[x[1]] = errs.get(x[1], 0) + 1
    return {"cases": len(scenarios), "exhaustive": sum(1 for s in scenarios if s.get("kind") == "ex"),
            "random": sum(1 for s in scenarios if s.get("kind") != "ex"), "max_ops": max(nops or [0]),
            "ops_by_kind": kinds, "exceptions_by_kind": errs, "selects_by_form": forms,
            "foreign_type_selects_differing_from_own_name_lookup": f_differs,
            "lenient_cases": sum(1 for s in scenarios if s["lenient"]),
            "max_user_types": max([len(s["univ"]) for s in scenarios] or [0])}


def extra_checks(ctx):
    """The constants the model and the oracle start from are those of the tree under test."""
    from cassis import TypeSystem
    out = []
    ts = TypeSystem()
    got = [(t.name, t.supertype.name if t.supertype is not None else None) for t in ts.get_types(built_in=True)]
    want = [(TOP, None)] + list(BUILTIN)
    out.append(("predefined types are created in the modelled order", got == want,
                "" if got == want else f"fresh TypeSystem has {got}", None))
    bad = []
    for n, _ in BUILTIN:
        try:
            TypeSystem().create_type("x.Probe", n)
            fin = False
        except ValueError:
            fin = True
        if fin != (n in FINAL):
            bad.append(n)
    out.append(("inheritance-final types are the modelled ones", not bad, f"differs for {bad}" if bad else "", None))
    src = open(os.path.join(os.path.dirname(os.path.dirname(os.path.dirname(os.path.abspath(__file__)))), "coq", "CorrC06.v")).read()
    m = re.search(r"Definition builtin_types.*?:=\s*\[(.*?)\]\.", src, flags=re.S)
    pairs = re.findall(r'\("([^"]+)",\s*"([^"]+)"\)', m.group(1)) if m else []
    out.append(("Coq prelude equals the oracle's predefined types", pairs == list(BUILTIN), "" if pairs == list(BUILTIN) else str(pairs[:3]), None))
    m = re.search(r"Definition ex_fu.*?:=\s*\[(.*?)\]\.", src, flags=re.S)
    pairs = [list(x) for x in re.findall(r'\("([^"]+)",\s*"([^"]+)"\)', m.group(1))] if m else []
    out.append(("Coq ex_fu equals the second type system of the exhaustive histories", pairs == EX_FUNIV,
                "" if pairs == EX_FUNIV else str(pairs), None))
    return out


MANIFEST = {
    "level_text": "Machine-checked proof (Coq 8.16) that, for every history of add / add_all / remove / create_view / get_view / "
                  "create_type / select / select_all on any number of views and handles, the modelled mechanism - per-view dict of "
                  "per-type lists kept sorted by (begin, end, id), defaultdict side effects, Type.descendants, get_type name resolution - "
                  "refines a bag of feature structures per view: select returns, for every iteration order of the descendant set, exactly "
                  "the bag members whose type is T or a transitive subtype (closure of the supertype map, proved equal to what descendants "
                  "computes), select_all exactly the bag, per concrete type in non-decreasing (begin, end); a remove of an absent structure "
                  "raises and changes no later observation; operations through one view never change another. The model is tied to /repo on "
                  "every run by evaluating it inside Coq on the histories the implementation was run on.",
    "level_note": "Trusted: Coq kernel + vm_compute; hand-written model coq/Select.v (SortedKeyList add/remove by contract, set iteration "
                  "order as a quantified argument, create_type as leaf insertion; feature assignment to "
                  "indexed structures is outside the history alphabet); harness driving the public API. Print Assumptions: closed under "
                  "the global context for all 13 theorems.",
    "technique": "Coq refinement proof (forward simulation between two instances of one executable machine) + in-Coq behavioural "
                 "correspondence (exhaustive short histories, seeded random long histories) + bookkeeping oracle",
    "design_ref": "DESIGN.md section 5, C06",
}
