"""Shared by C10.py and C11.py (type-system histories): scenario IR, implementation driver, the oracle's own tree
bookkeeping (independent of cassis and of the Coq model), Gallina rendering, the observed-initial-state obligation.

Scenario IR (JSON-able):
  {"ops": [op...], "names": [full names to query pairwise], "lookups": [strings for get_type/contains_type],
   "pairs": [[x, y]...] string pairs for ts.subsumes, "kw": [candidate constructor keywords], "fn": [feature names]}
  op := {"op": "ct", "n": name, "s": supertype string, "d": description|None}
      | {"op": "cf", "dom": str, "n": feature name, "r": range str, "e": element str|None, "m": bool|None, "d": str|None}
      | {"op": "inst", "t": type name}
"""
import json
import os
import subprocess

from harness import core
from harness.gallina import gbool, glist, gn, gopt, gstr

TOP = "uima.cas.TOP"

# ---------------------------------------------------------------------------------------------- the oracle's own tables
# Written by hand from the UIMA built-in type system (not read from cassis, not read from the Coq model).
BUILTIN_TREE = [
    ("uima.cas.TOP", None), ("uima.cas.NULL", TOP), ("uima.cas.Boolean", TOP), ("uima.cas.Byte", TOP), ("uima.cas.Short", TOP),
    ("uima.cas.Integer", TOP), ("uima.cas.Long", TOP), ("uima.cas.Float", TOP), ("uima.cas.Double", TOP), ("uima.cas.String", TOP),
    ("uima.cas.ArrayBase", TOP), ("uima.cas.FSArray", "uima.cas.ArrayBase"), ("uima.cas.BooleanArray", "uima.cas.ArrayBase"),
    ("uima.cas.ByteArray", "uima.cas.ArrayBase"), ("uima.cas.ShortArray", "uima.cas.ArrayBase"), ("uima.cas.LongArray", "uima.cas.ArrayBase"),
    ("uima.cas.DoubleArray", "uima.cas.ArrayBase"), ("uima.cas.FloatArray", "uima.cas.ArrayBase"), ("uima.cas.IntegerArray", "uima.cas.ArrayBase"),
    ("uima.cas.StringArray", "uima.cas.ArrayBase"), ("uima.cas.ListBase", TOP), ("uima.cas.FSList", "uima.cas.ListBase"),
    ("uima.cas.EmptyFSList", "uima.cas.FSList"), ("uima.cas.NonEmptyFSList", "uima.cas.FSList"), ("uima.cas.FloatList", "uima.cas.ListBase"),
    ("uima.cas.EmptyFloatList", "uima.cas.FloatList"), ("uima.cas.NonEmptyFloatList", "uima.cas.FloatList"),
    ("uima.cas.IntegerList", "uima.cas.ListBase"), ("uima.cas.EmptyIntegerList", "uima.cas.IntegerList"),
    ("uima.cas.NonEmptyIntegerList", "uima.cas.IntegerList"), ("uima.cas.StringList", "uima.cas.ListBase"),
    ("uima.cas.EmptyStringList", "uima.cas.StringList"), ("uima.cas.NonEmptyStringList", "uima.cas.StringList"),
    ("uima.cas.Sofa", TOP), ("uima.cas.AnnotationBase", TOP), ("uima.tcas.Annotation", "uima.cas.AnnotationBase"),
    ("uima.tcas.DocumentAnnotation", "uima.tcas.Annotation"),
]
# (domain, name, range, element, multipleReferencesAllowed)
BUILTIN_FEATURES = [
    ("uima.cas.ArrayBase", "elements", TOP, None, True),
    ("uima.cas.NonEmptyFSList", "head", TOP, None, True), ("uima.cas.NonEmptyFSList", "tail", "uima.cas.FSList", None, True),
    ("uima.cas.NonEmptyFloatList", "head", "uima.cas.Float", None, None), ("uima.cas.NonEmptyFloatList", "tail", "uima.cas.FloatList", None, True),
    ("uima.cas.NonEmptyIntegerList", "head", "uima.cas.Integer", None, None), ("uima.cas.NonEmptyIntegerList", "tail", "uima.cas.IntegerList", None, True),
    ("uima.cas.NonEmptyStringList", "head", "uima.cas.String", None, None), ("uima.cas.NonEmptyStringList", "tail", "uima.cas.StringList", None, True),
    ("uima.cas.Sofa", "sofaNum", "uima.cas.Integer", None, None), ("uima.cas.Sofa", "sofaID", "uima.cas.String", None, None),
    ("uima.cas.Sofa", "mimeType", "uima.cas.String", None, None), ("uima.cas.Sofa", "sofaArray", TOP, None, True),
    ("uima.cas.Sofa", "sofaString", "uima.cas.String", None, None), ("uima.cas.Sofa", "sofaURI", "uima.cas.String", None, None),
    ("uima.cas.AnnotationBase", "sofa", "uima.cas.Sofa", None, None),
    ("uima.tcas.Annotation", "begin", "uima.cas.Integer", None, None), ("uima.tcas.Annotation", "end", "uima.cas.Integer", None, None),
    ("uima.tcas.DocumentAnnotation", "language", "uima.cas.String", None, None),
]
PRIMITIVES = {"uima.cas." + x for x in ("Boolean", "Byte", "Short", "Integer", "Long", "Float", "Double", "String")}
FINAL = {"uima.cas." + x + "Array" for x in ("Float", "Integer", "Boolean", "Byte", "Short", "Long", "Double", "String")}
BUILTIN_NAMES = [n for n, _ in BUILTIN_TREE]


def short(n):
    return n.split(".")[-1]


class Tree:
    """The oracle's bookkeeping: declared supertypes and own feature definitions, nothing else."""

    def __init__(self):
        self.sup = {}
        self.own = {}
        for n, p in BUILTIN_TREE:
            self.sup[n] = p
            self.own[n] = {}
        for dom, n, r, e, m in BUILTIN_FEATURES:
            self.own[dom][n] = (r, e, m, None)
        self.instantiated = set()

    def resolve(self, s):
        if s in self.sup:
            return s
        if "." in s:
            return None
        c = [n for n in self.sup if short(n) == s]
        return c[0] if len(c) == 1 else None

    def ancestors(self, n):  # proper, nearest first
        out = []
        p = self.sup[n]
        while p is not None:
            out.append(p)
            p = self.sup[p]
        return out

    def subsumes(self, a, b):
        return a == b or a in self.ancestors(b)

    def children(self, n):
        return sorted(c for c, p in self.sup.items() if p == n)

    def subtree(self, n):
        return sorted(d for d in self.sup if self.subsumes(n, d))

    def is_primitive(self, n):
        return any(x in PRIMITIVES for x in [n] + self.ancestors(n))

    def effective(self, n):
        """feature name -> definition of the nearest type (self first) that defines it"""
        eff = {}
        for a in [n] + self.ancestors(n):
            for k, v in self.own[a].items():
                eff.setdefault(k, v)
        return eff

    # -- operations: return the set of outcomes the property allows; commit(outcome) updates the bookkeeping
    def create_type(self, n, s):
        if n in self.sup:
            return {"EValue"}, None
        p = self.resolve(s)
        if p is None:
            return {"ETypeNotFound"}, None
        if p in FINAL:
            return {"EValue"}, None

        def commit(out):
            if out == "ok":
                self.sup[n] = p
                self.own[n] = {}
        return {"ok"}, commit

    @staticmethod
    def _rel(a, b):
        """identical / conflict (range differs) / between (same range, something else differs: the property is silent)"""
        if a[0] != b[0]:
            return "conflict"
        if (a[1] or TOP) == (b[1] or TOP) and a[2] == b[2] and a[3] == b[3]:
            return "identical"
        return "between"

    def create_feature(self, dom, name, r, e, m, d):
        td, tr = self.resolve(dom), self.resolve(r)
        te = self.resolve(e) if e is not None else None
        if td is None or tr is None or (e is not None and te is None):
            return {"ETypeNotFound"}, None
        if name in ("self", "type"):
            name = name + "_"
        new = (tr, te, m, d)
        eff = self.effective(td)
        if name in eff:
            rel = self._rel(eff[name], new)
            return {"identical": {"ok"}, "conflict": {"EValue"}, "between": {"ok", "EValue"}}[rel], None
        rels = [self._rel(self.own[x][name], new) for x in self.sup if name in self.own[x] and td in self.ancestors(x)]
        if "conflict" in rels:
            return {"EValue"}, None

        def commit(out):
            if out == "ok":
                self.own[td][name] = new
        return ({"ok", "EValue"} if "between" in rels else {"ok"}), commit

    def instantiate(self, t):
        p = self.resolve(t)
        if p is None:
            return {"ETypeNotFound"}, None
        return {"ok"}, (lambda out: self.instantiated.add(p))

    def apply(self, op, observed):
        """allowed outcomes for op; the bookkeeping follows the observed outcome when it is an allowed one"""
        if op["op"] == "ct":
            allowed, commit = self.create_type(op["n"], op["s"])
        elif op["op"] == "cf":
            allowed, commit = self.create_feature(op["dom"], op["n"], op["r"], op.get("e"), op.get("m"), op.get("d"))
        else:
            allowed, commit = self.instantiate(op["t"])
        if commit is not None and observed in allowed:
            commit(observed)
        return allowed


# ---------------------------------------------------------------------------------------------- implementation driver
def err_kind(cassis, e):
    from cassis.typesystem import TypeNotFoundError
    if isinstance(e, TypeNotFoundError):
        return "ETypeNotFound"
    for cls, k in ((ValueError, "EValue"), (TypeError, "EType"), (AttributeError, "EAttribute"), (KeyError, "EKey"),
                   (IndexError, "EIndex"), (RecursionError, "ERuntime"), (RuntimeError, "ERuntime")):
        if isinstance(e, cls):
            return k
    return "ERuntime:" + type(e).__name__


def feat_row(f):
    return [f.name, f.rangeType.name, f.elementType.name if f.elementType is not None else None, f.multipleReferencesAllowed]


def dump(ts):
    """Everything observable about the type system through the public API (names only), in the API's orders."""
    out = []
    for t in ts.get_types(built_in=True):
        out.append({"name": t.name, "super": t.supertype.name if t.supertype is not None else None,
                    "children": [c.name for c in t.children],
                    "own": [feat_row(f) + [f.description, f.domainType.name] for f in t.features],
                    "all": [feat_row(f) + [f.description, f.domainType.name] for f in t.all_features]})
    return out


def apply_op(cassis, ts, op):
    try:
        if op["op"] == "ct":
            ts.create_type(op["n"], op["s"], description=op.get("d"))
        elif op["op"] == "cf":
            ts.create_feature(op["dom"], op["n"], op["r"], elementType=op.get("e"), description=op.get("d"),
                              multipleReferencesAllowed=op.get("m"))
        else:
            ts.get_type(op["t"])()
        return "ok"
    except Exception as e:  # noqa
        return err_kind(cassis, e)


def run_ops(cassis, ops):
    """Returns (ts, outcomes, indices of failing operations after which the dump differs)."""
    ts = cassis.TypeSystem()
    outcomes, changed = [], []
    before = dump(ts)
    for i, op in enumerate(ops):
        out = apply_op(cassis, ts, op)
        outcomes.append(out)
        after = dump(ts)
        if out != "ok" and after != before:
            changed.append(i)
        before = after
    return ts, outcomes, changed


def identity_failures(ts):
    """Every Type reachable through supertypes, children, descendants and the domain/range/element types of features is
    the object registered under its name."""
    bad = []
    reg = {t.name: t for t in ts.get_types(built_in=True)}
    for n, t in reg.items():
        if ts.get_type(n) is not t:
            bad.append(f"get_type({n}) is not the listed object")
        if t.supertype is not None and t.supertype is not reg.get(t.supertype.name):
            bad.append(f"{n}.supertype is not the registered {t.supertype.name}")
        for c in t.children:
            if c is not reg.get(c.name):
                bad.append(f"child {c.name} of {n} is not registered")
        for d in t.descendants:
            if d is not reg.get(d.name):
                bad.append(f"descendant {d.name} of {n} is not registered")
        for f in t.all_features:
            for role, x in (("domainType", f.domainType), ("rangeType", f.rangeType), ("elementType", f.elementType)):
                if x is not None and x is not reg.get(getattr(x, "name", None)):
                    bad.append(f"{n}.{f.name}.{role} is not the registered object")
        for f in t.features:
            if f.domainType is not t:
                bad.append(f"{n}.{f.name}.domainType is not {n}")
    return bad


def closure_failures(ts, probe_ctor=True):
    """C11's statement read on any type system through the public API: for every type, all_features lists each name once
    and is exactly the own features (`features`) of the type and of all its ancestors (`supertype` chain), the nearest
    definition of a name standing for it; get_feature agrees; the constructor accepts exactly those names."""
    bad = []
    for t in ts.get_types(built_in=True):
        listed = [(f.name, f.rangeType.name, f.elementType.name if f.elementType is not None else None) for f in t.all_features]
        names = [r[0] for r in listed]
        dup = sorted({n for n in names if names.count(n) > 1})
        if dup:
            bad.append(f"{t.name} lists feature {dup[0]} more than once: {[r for r in listed if r[0] == dup[0]]}")
            continue
        want = {}
        cur, guard = t, 0
        while cur is not None and guard < 200:
            for f in cur.features:
                want.setdefault(f.name, (f.name, f.rangeType.name, f.elementType.name if f.elementType is not None else None))
            cur, guard = cur.supertype, guard + 1
        if sorted(want.values(), key=str) != sorted(listed, key=str):
            miss = sorted(set(want) - set(names))
            extra = sorted(set(names) - set(want))
            diff = [(want[n], r) for r in listed for n in [r[0]] if n in want and want[n] != r]
            bad.append(f"{t.name}: all_features is not own + ancestors': missing {miss[:3]}, unexpected {extra[:3]}, differing {diff[:2]}")
            continue
        for n in names:
            g = t.get_feature(n)
            if g is None or g.name != n or g.rangeType.name != want[n][1]:
                bad.append(f"{t.name}.get_feature({n}) does not return the listed definition")
        if probe_ctor and t.name not in BUILTIN_NAMES:
            for n in names + ["nope__"]:
                try:
                    t(**{n: None})
                    ok = True
                except TypeError:
                    ok = False
                if ok != (n in want):
                    bad.append(f"{t.name}({n}=...) {'accepted' if ok else 'rejected'}")
    return bad


# ---------------------------------------------------------------------------------------------- Gallina rendering
def gostr(s):
    return gopt(s, gstr)


def gobool(b):
    return gopt(b, gbool)


def gop(op):
    if op["op"] == "ct":
        return f'OCreateType {gstr(op["n"])} {gstr(op["s"])} {gostr(op.get("d"))}'
    if op["op"] == "cf":
        return (f'OCreateFeature {gstr(op["dom"])} {gstr(op["n"])} {gstr(op["r"])} {gostr(op.get("e"))} '
                f'{gobool(op.get("m"))} {gostr(op.get("d"))}')
    return f'OInstantiate {gstr(op["t"])}'


KINDS = {"ETypeNotFound", "EValue", "ERuntime", "EAttribute", "EKey", "EType", "EDupId", "EIndex"}


def gout(o):
    if o == "ok":
        return "ROk"
    return f"RErr {o}" if o in KINDS else "RErr ERuntime"


def gbits(bools):
    v = 0
    for i, b in enumerate(bools):
        if b:
            v |= 1 << i
    return gn(v)


def gres_bool(x):
    if "ok" in x:
        return f"Ok {gbool(x['ok'])}"
    return f"Err {x['err']}" if x["err"] in KINDS else "Err ERuntime"


def gstrs(l):
    return glist([gstr(s) for s in l])


# ---------------------------------------------------------------------------------------------- observed initial state
def observed_init_check(cassis, prop_id):
    """Extra obligation: the model's init_ts equals what TypeSystem() builds now (registration order, supertypes,
    children order, own and inherited features with range / element type / multipleReferencesAllowed, effective feature
    order) and the three name sets equal the code's.  Rendered to coq/gen/ObservedInit<ID>.v and decided by vm_compute."""
    from cassis import typesystem as tsm
    ts = cassis.TypeSystem()

    def gof(f):
        return f"mkOF {gstr(f.name)} {gstr(f.rangeType.name)} {gostr(f.elementType.name if f.elementType else None)} {gobool(f.multipleReferencesAllowed)}"

    rows = []
    for t in ts.get_types(built_in=True):
        own = list(t.features)
        own_ids = {id(f) for f in own}
        inh = [f for f in t.all_features if id(f) not in own_ids]
        rows.append(f"mkOT {gstr(t.name)} {gostr(t.supertype.name if t.supertype else None)} "
                    f"{gstrs([c.name for c in t.children])} {glist([gof(f) for f in own])} {glist([gof(f) for f in inh])} "
                    f"{gstrs([f.name for f in t.all_features])}")
    ts2 = cassis.TypeSystem(add_document_annotation_type=False)
    names2 = [t.name for t in ts2.get_types(built_in=True)]
    path = os.path.join(core.GEN, f"ObservedInit{prop_id}.v")
    os.makedirs(core.GEN, exist_ok=True)
    with open(path, "w", encoding="utf-8") as f:
        f.write("From Cassis Require Import Base TS CorrC10.\n")
        f.write("Definition observed : list otype := [\n" + ";\n".join(rows) + "\n].\n")
        f.write(f"Definition predef := {gstrs(sorted(tsm._PREDEFINED_TYPES))}.\n")
        f.write(f"Definition prim := {gstrs(sorted(tsm._PRIMITIVE_TYPES))}.\n")
        f.write(f"Definition final := {gstrs(sorted(tsm._INHERITANCE_FINAL_TYPES))}.\n")
        f.write(f"Definition nodoc := {gstrs(names2)}.\n")
        f.write("Eval vm_compute in (init_matches init_ts observed predef prim final, "
                "list_str_eqb (map t_name init_ts_nodoc) nodoc, wfb init_ts).\n")
    with core.CoqLock():
        p = subprocess.run(["timeout", "300", "coqc", "-Q", ".", "Cassis", os.path.relpath(path, core.COQ)], cwd=core.COQ,
                           capture_output=True, text=True)
    out = " ".join((p.stdout + p.stderr).split())
    for ext in (".vo", ".vok", ".vos", ".glob"):
        q = path[:-2] + ext
        if os.path.exists(q):
            os.remove(q)
    aux = os.path.join(core.GEN, f".ObservedInit{prop_id}.aux")
    if os.path.exists(aux):
        os.remove(aux)
    ok = p.returncode == 0 and "= (true, true, true)" in out
    return ("model init_ts = observed TypeSystem() (built-in types, children order, features) and wfb init_ts", ok,
            "agrees" if ok else out[-600:], None)


def clone(x):
    return json.loads(json.dumps(x))
