"""C01 — XMI save/load is lossless: same views, FS graph, values, ids and indexes; the re-save is the same document."""
import copy
import os
import pathlib
import random
import shutil

from harness import scen, xmlabs
from harness.props import xmicommon as xc

ID = "C01"
COQ_TARGETS = ["Lex.vo", "LexProofs.vo", "XmiDoc.vo", "Xmi.vo", "XmiProofs.vo", "ReachProofs.vo", "ReachSpec.vo", "XmiWf.vo", "XmiDocOk.vo", "XmiResave.vo",
               "XmiLoad.vo", "XmiLoadProofs.vo", "XmiLoadProofs2.vo", "XmiLoadProofs3.vo", "XmiRt.vo", "XmiRtProofs.vo", "XmiRtTotal.vo",
               "XmiRtTotalProofs.vo", "XmiLoadCas.vo", "CorrC04.vo", "CorrC01.vo", "XmiExample.vo", "Props/C01.vo"]
PROPS_FILE = "Props/C01.v"
CORR_IMPORTS = "Base Heap Schema Canon XmiDoc Xmi CorrC01"
OPEN_SCOPES = ["Z_scope"]
ENTRY = "cassis.cas.Cas.to_xmi / cassis.xmi.load_cas_from_xmi"
CASES_PER_SHARD = 30
SHARD_BYTES = 260_000
RULE = (
    "the C04 scenarios (type systems with deep hierarchies, no-namespace types, colliding package suffixes, reserved names "
    "self/type, begin/end on non-annotations, a user subtype of uima.cas.String; CASes with 1-3 views incl. astral text, "
    "sofa URI / byte array, every primitive, array and list kind inline and shared, empty collections, null elements, "
    "cycles, indexed and referenced-only structures, some without an id) x pretty_print in {False, True} x sink in "
    "{None -> string, str path, pathlib.Path}, drawn per case. On top (widen, own random streams, the rest of a scenario "
    "unchanged): in 30% string subtypes two and three levels below uima.cas.String (a.MyStr <- a.MyStr2 <- a.b.MyStr3) become "
    "the range of features that had the range a.MyStr and of 1-2 new features with values; in 40% (when a user type has a "
    "user ancestor) 1-2 features are declared identically on a type and on one of its user ancestors - on the subtype first "
    "and on the ancestor after all other declarations (the subtype then holds the feature as own and as inherited feature), "
    "one time in five the other way round - with ranges biased to inline string arrays / lists (the values written as child "
    "elements) next to the other collection, primitive and reference kinds, and the structures below the ancestor get "
    "values. A case is non-trivial when it has >= 2 structures and a reference or collection slot is set."
)
TRUSTED = [
    "Coq 8.16.1 kernel and vm_compute; theorems in Props/C01.v are closed under the global context or depend only on the "
    "float contract (section premises flt_rt / flt_tok)",
    "hand-written models coq/Reach.v, coq/Xmi.v (writer), coq/XmiLoad.v (reader, C05), coq/XmiDoc.v (denotation of "
    "documents), coq/Lex.v, coq/Offsets.v",
    "xml.etree.ElementTree as XML parser for the abstract documents (harness/xmlabs.py); escaping, prefixes, whitespace "
    "and the sinks are compared byte-wise by the oracle, not modelled",
    "harness/scen.py: builders through the public API and the canonical observation canon() by identity-based traversal; "
    "the schema given to the model is scen.schema_of following the declaration history (C01.schema_of: late declarations "
    "that add a feature come last, repeated identical definitions add nothing)",
    "Python repr(float) / float(str) for the float literal table; contract checked on every case",
]
ASSUMPTIONS = [
    "schema and input CAS inside wf_rtb (XmiRt.v): wf_inb of C04 + the schema answers like a TypeSystem (schema_okb, "
    "sofa_feat_okb), defines uima.cas.NULL, type names survive the reader's string surgery, the CAS has _InitialView and "
    "indexed annotations are indexed in the view of their own sofa; load_cas_from_xmi is given the type system of the CAS",
    "wf_rt_totalb (XmiRtTotal.v) = wf_rtb + every structure whose type has the feature sofa holds the sofa of a view of this "
    "CAS (Cas.add guarantees it for indexed structures; DESIGN 4.4: every serialised annotation has a sofa of this CAS): the "
    "premise of the unconditional round trip C01_xmi_roundtrip; without it the reader raises KeyError on the writer's own "
    "output (C01_reader_total_wf_rtb_refuted: referenced-only annotation whose sofa was never set)",
    "collections held by features without multipleReferencesAllowed are compared by content (object identity of inlined "
    "arrays / lists is not expressible in XMI); \"\" and null inside string arrays / lists are identified",
]


def generate(rng, tier):
    from harness.props import C04
    cassis = C04._load()
    n = {"quick": 150, "thorough": 2000, "search": 2500}[tier]
    for _ in range(n):
        seed = rng.getrandbits(48)
        r = random.Random(seed)
        sc = xc.gen_scenario(r, cassis, tier)
        sc["config"] = {"pretty": r.random() < 0.5, "sink": r.choice(["str", "path", "Path"])}
        yield widen(seed, cassis, sc)


# ------------------------------------------------------------------------------------------------ fourth-wave widening
# Two families of legal type systems ("all type systems: deep hierarchies ... feature ranges that are user subtypes of
# uima.cas.String") the shared generator never produces; every choice from own streams, so the rest of a scenario - and what
# the earlier seeded changes were caught with - stays what it was:
#  * string subtypes below string subtypes (a.MyStr <- a.MyStr2 <- a.b.MyStr3) as feature ranges: the value is written as
#    an attribute and has to come back as the same string, however far the range sits below uima.cas.String;
#  * one feature declared identically on a type and on one of its ancestors, in either order of declaration (sc["late"]:
#    declarations made after all of sc["ts"]).  The TypeSystem accepts both; declared on the subtype first, the subtype
#    holds the feature as own and as inherited feature, and it still is ONE feature with ONE value ("the same feature
#    values", "serialising again yields the identical document").  Ranges are biased to the kinds that are not written
#    as one attribute: string arrays / lists held inline.
LATE_RANGES = [  # (range, multipleReferencesAllowed); the first five are written as child elements
    (scen.T + "StringArray", None), (scen.T + "StringArray", False), (scen.T + "StringList", None), (scen.T + "StringList", False),
    (scen.T + "StringArray", None), (scen.T + "StringArray", True), (scen.T + "StringList", True), (scen.T + "IntegerArray", None),
    (scen.T + "DoubleArray", False), (scen.T + "ByteArray", None), (scen.T + "IntegerList", None), (scen.T + "FloatList", True),
    (scen.T + "String", None), (scen.T + "Integer", None), (scen.T + "Double", None), ("a.MyStr", None),
    (scen.FS_ARRAY, None), (scen.FS_ARRAY, True), (scen.FS_LIST, False), (scen.FS_LIST, True), (scen.TOP, None),
]
STR_SUB = "a.MyStr"


def _plain_types(tspec):
    """user types that can have structures: everything that is not below uima.cas.String"""
    by = {t["name"]: t for t in tspec}

    def is_str(t):
        while t is not None:
            if t["super"] == scen.T + "String":
                return True
            t = by.get(t["super"])
        return False

    return [t for t in tspec if not is_str(t)]


def _ancestors(by, name):
    out = []
    while name in by:
        out.append(name)
        name = by[name]["super"]
    return out


def _same_decl(f, g):
    return (f["name"], f["range"], f.get("elem"), f.get("multi")) == (g["name"], g["range"], g.get("elem"), g.get("multi"))


def late_split(sc):
    """The late declarations that add a feature (the type had no feature of that name, neither own nor inherited), as extra
    entries for scen.schema_of; the others repeat a definition the type already has, which the TypeSystem ignores."""
    by = {t["name"]: {"super": t["super"], "feats": list(t["feats"])} for t in sc["ts"]}
    extra = []
    for d in sc.get("late") or []:
        if d["type"] not in by:
            raise ValueError("late declaration on unknown type " + d["type"])
        if any(f["name"] == d["feat"]["name"] for a in _ancestors(by, d["type"]) for f in by[a]["feats"]):
            continue
        by[d["type"]]["feats"].append(d["feat"])
        extra.append({"name": d["type"], "super": by[d["type"]]["super"], "feats": [d["feat"]]})
    return extra


def schema_of(cassis, sc):
    """scen.schema_of following the declaration history: a feature added late to a type comes after everything declared
    before - last among the type's own features, last among the inherited ones of its descendants - and a descendant that
    declared it itself keeps it where it was (a second entry for a type appends to its features, scen.schema_of)."""
    return scen.schema_of(cassis, sc["ts"] + late_split(sc))


def schema_and_names(cassis, sc):
    schema = schema_of(cassis, sc)
    names = scen.used_type_names(schema, sc["cas"])
    for n in (scen.T + "NULL", scen.T + "TOP"):
        if n in schema and n not in names:
            names.append(n)
    return schema, sorted(names)


def build(cassis, sc):
    """xc.build with the late declarations made after all declarations of sc["ts"]"""
    ts = scen.build_ts(cassis, sc["ts"])
    for d in sc.get("late") or []:
        f = d["feat"]
        ts.create_feature(ts.get_type(d["type"]), f["name"], f["range"], elementType=f.get("elem"),
                          multipleReferencesAllowed=f.get("multi"))
    cas, views, objs = scen.build_cas(cassis, ts, sc["cas"])
    for i, v in enumerate(sc["cas"]["views"]):
        if v.get("uri") is not None:
            views[i].sofa_uri = v["uri"]
        if v.get("array") is not None:
            views[i].sofa_array = objs[v["array"]]
    return ts, cas, views, objs


def _give_values(r, cassis, sc, owners, pn, rng):
    """values of feature pn (range rng) for the structures whose type is below one of `owners` and that have none yet"""
    schema = schema_of(cassis, sc)
    add = xc._Adder(r, sc["cas"])
    plain = [o for o in sc["cas"]["objs"] if xc._is_plain(o)]
    n = 0
    for o in plain:
        if pn not in o["slots"] and any(t in schema[o["type"]]["anc"] for t in owners) and r.random() < 0.85:
            v = xc._value_for(r, add, schema, rng, plain)
            if v is not None:
                o["slots"][pn] = v
                n += 1
    return n


def deep_string_ranges(r, cassis, sc):
    """Subtypes of the string subtype a.MyStr, two and three levels below uima.cas.String, as ranges: of some of the
    features that had the range a.MyStr and of one or two new features."""
    tspec = sc["ts"]
    if not any(t["name"] == STR_SUB for t in tspec):
        return None
    deep = [STR_SUB + "2"]
    tspec.append({"name": deep[0], "super": STR_SUB, "feats": []})
    if r.random() < 0.5:
        deep.append("a.b.MyStr3")
        tspec.append({"name": deep[1], "super": deep[0], "feats": []})
    made = 0
    for t in tspec:
        for f in t["feats"]:
            if f["range"] == STR_SUB and r.random() < 0.5:
                f["range"] = r.choice(deep)
                made += 1
    existing = {f["name"] for t in tspec for f in t["feats"]}
    plain = _plain_types(tspec)
    for k in range(r.choice([1, 1, 2])):
        name = next(n for n in ["d%d" % k, "dd%d" % k, "ddd%d" % k] if n not in existing)
        t = r.choice(plain)
        rng = r.choice(deep)
        t["feats"].append({"name": name, "range": rng, "elem": None, "multi": None})
        existing.add(name)
        _give_values(r, cassis, sc, [t["name"]], name, rng)
        made += 1
    return {"types": deep, "features": made}


def redeclared_features(r, cassis, sc):
    """One feature declared identically on a type C and on a user type P above it: on C first and on P afterwards (C then has
    it as own and as inherited feature) or - less often - the other way round (C's declaration repeats what it inherited)."""
    tspec = sc["ts"]
    plain = _plain_types(tspec)
    by = {t["name"]: t for t in plain}
    pairs = [(c, by[p]) for c in plain for p in _ancestors(by, c["name"])[1:]]
    if not pairs:
        return None
    c, p = r.choice(pairs)
    below_p = [t for t in plain if p["name"] in _ancestors(by, t["name"])]
    existing = {f["name"] for t in tspec for f in t["feats"]}
    made = []
    sc.setdefault("late", [])
    for k in range(r.choice([1, 1, 2])):
        reuse = [f for f in c["feats"] if f["name"] not in scen.RESERVED
                 and all(_same_decl(f, g) for t in below_p for g in t["feats"] if g["name"] == f["name"])
                 and not any(d["feat"]["name"] == f["name"] for d in sc["late"])]
        if reuse and r.random() < 0.35:
            f = dict(r.choice(reuse))                       # a feature C has anyway
        else:
            name = next(n for n in ["r%d" % k, "rr%d" % k, "rrr%d" % k] if n not in existing)
            rng, multi = r.choice(LATE_RANGES[:5]) if r.random() < 0.6 else r.choice(LATE_RANGES)
            f = {"name": name, "range": rng, "elem": None, "multi": multi}
            existing.add(name)
            if r.random() < 0.2:                            # P first: declared in the ordinary pass, C repeats it late
                p["feats"].append(f)
                sc["late"].append({"type": c["name"], "feat": dict(f)})
                _give_values(r, cassis, sc, [p["name"]], scen.pyname(name), rng)
                made.append([c["name"], p["name"], name, rng, "super first"])
                continue
            c["feats"].append(f)
        sc["late"].append({"type": p["name"], "feat": dict(f)})
        _give_values(r, cassis, sc, [p["name"]], scen.pyname(f["name"]), f["range"])
        made.append([c["name"], p["name"], f["name"], f["range"], "sub first"])
    return made


def widen(seed, cassis, sc):
    r1, r2 = random.Random(seed ^ 0x0572D), random.Random(seed ^ 0x1A7E)
    sc["late"] = []
    sc["knobs"] = {}
    if r1.random() < 0.3:
        sc["knobs"]["deep_string"] = deep_string_ranges(r1, cassis, sc)
    if r2.random() < 0.4:
        sc["knobs"]["redeclared"] = redeclared_features(r2, cassis, sc)
    return sc


def _save(cas, cfg, tag):
    """to_xmi through the configured sink; returns the bytes written (files under /verif/.work/<pid>/, removed)."""
    pretty = cfg["pretty"]
    if cfg["sink"] == "str":
        return cas.to_xmi(pretty_print=pretty).encode("utf-8"), None
    from harness import core
    d = os.path.join(core.VERIF, ".work", str(os.getpid()))
    os.makedirs(d, exist_ok=True)
    try:
        p = os.path.join(d, f"{tag}.xmi")
        res = cas.to_xmi(p if cfg["sink"] == "path" else pathlib.Path(p), pretty_print=pretty)
        with open(p, "rb") as f:
            data = f.read()
        return data, res
    finally:
        shutil.rmtree(d, ignore_errors=True)


def run_impl(cassis, sc):
    xc.STATE["cassis"] = cassis
    cfg = sc.get("config") or {"pretty": False, "sink": "str"}
    ts, cas, _views, objs = build(cassis, sc)
    sofas = [[s.xmiID, s.sofaNum] for s in cas.sofas]
    data1, ret1 = _save(cas, cfg, "a")
    as_string = cas.to_xmi(pretty_print=cfg["pretty"])                 # the same CAS again, to the string sink
    before = scen.canon(cas, "xmi")
    ids = {l: o.xmiID for l, o in objs.items()}
    loaded = cassis.load_cas_from_xmi(data1.decode("utf-8") if cfg["sink"] == "str" else __import__("io").BytesIO(data1),
                                      typesystem=ts)
    after = scen.canon(loaded, "xmi")
    data2, _ = _save(loaded, cfg, "b")
    return {"doc": xmlabs.parse(data1), "doc2": xmlabs.parse(data2), "before": before, "after": after, "ids": ids,
            "sofas": sofas, "same_bytes": data1 == as_string.encode("utf-8"), "same_bytes2": data1 == data2,
            "ret": repr(ret1), "decl": data1[:60].decode("utf-8", "replace")}


def norm(cc):
    """\"\" = null inside string arrays / lists (the only value equivalence C01 allows)."""
    cc = copy.deepcopy(cc)
    strs = (scen.T + "StringArray", scen.T + "StringList")

    def fix(l):
        return [None if (e is not None and e[0] == "s" and e[1] == "") else e for e in l]

    for d in cc["fs"].values():
        for k, v in d["feats"].items():
            if v is None:
                continue
            if v[0] == "coll" and v[1] in strs:
                d["feats"][k] = ["coll", v[1], fix(v[2] or [])]
            elif v[0] == "list" and d["type"] == strs[0]:
                d["feats"][k] = ["list", fix(v[1])]
    return cc


def oracle(cassis, sc, obs):
    msg = xc.float_contract(sc["cas"])
    if msg:
        return "float contract: " + msg
    a, b = norm(obs["before"]), norm(obs["after"])
    if sorted(a["fs"]) != sorted(b["fs"]):
        return f"ids: before {sorted(a['fs'])[:12]} after load {sorted(b['fs'])[:12]}"
    for i in a["fs"]:
        if a["fs"][i]["type"] != b["fs"][i]["type"]:
            return f"type: id {i} was {a['fs'][i]['type']}, loaded as {b['fs'][i]['type']}"
        fa, fb = a["fs"][i]["feats"], b["fs"][i]["feats"]
        for k in sorted(set(fa) | set(fb)):
            if fa.get(k) != fb.get(k):
                return f"value: id {i} ({a['fs'][i]['type']}) feature {k}: {fa.get(k)!r} became {fb.get(k)!r}"
    for sa, sb in zip(a["sofas"], b["sofas"]):
        for k in ("id", "num", "name", "text", "mime", "uri", "arr"):
            if sa[k] != sb[k]:
                return f"sofa: {k} of sofa {sa['id']} was {sa[k]!r}, loaded as {sb[k]!r}"
        if sa["members"] != sb["members"]:
            return f"members: view {sa['name']} had {sa['members']}, loaded {sb['members']}"
    if len(a["sofas"]) != len(b["sofas"]):
        return f"sofa: {len(a['sofas'])} sofas before, {len(b['sofas'])} after load"
    if xmlabs.infoset(obs["doc"]) != xmlabs.infoset(obs["doc2"]):
        d1, d2 = xmlabs.infoset(obs["doc"]), xmlabs.infoset(obs["doc2"])
        diff = next((x, y) for x, y in zip(d1 + [None], d2 + [None]) if x != y)
        return f"resave: second document differs from the first: {diff[0]!r} vs {diff[1]!r}"
    if not obs["same_bytes"]:
        return f"sink: bytes written to sink {sc['config']['sink']} differ from the string returned by to_xmi()"
    if sc["config"]["sink"] != "str" and obs["ret"] != "None":
        return f"sink: to_xmi(path) returned {obs['ret']}"
    if not obs["decl"].startswith("<?xml version='1.0' encoding='UTF-8'?>"):
        return f"sink: document starts with {obs['decl']!r}"
    return None


def render(sc, obs):
    cassis = xc.STATE["cassis"]
    schema, names = schema_and_names(cassis, sc)
    return "mkCase\n %s\n (%s)\n %s\n %s\n (%s)\n %s" % (
        scen.g_schema(schema, names), xc.g_cas(sc["cas"], obs["ids"], obs["sofas"]), xc.g_ftab(sc["cas"]),
        xmlabs.g_xdoc(obs["doc"]), scen.g_ccas(obs["after"]), xmlabs.g_xdoc(obs["doc2"]))


nontrivial = xc.nontrivial


def _late_ok(c):
    names = {t["name"] for t in c["ts"]}
    for d in c.get("late") or []:
        f = d["feat"]
        if d["type"] not in names or any(n and not n.startswith("uima.") and n not in names for n in (f["range"], f.get("elem"))):
            return False
    return True


def shrink_candidates(sc):
    for c in xc.shrink_candidates(sc):
        if _late_ok(c):
            yield c
    for i in range(len(sc.get("late") or [])):       # one late declaration less, if no structure needs the feature then
        c = copy.deepcopy(sc)
        del c["late"][i]
        schema = schema_of(xc.STATE["cassis"], c)
        if all(k in {f[0] for f in schema[o["type"]]["feats"]} for o in c["cas"]["objs"] for k in o["slots"]):
            yield c
    if sc.get("config", {}).get("pretty"):
        c = copy.deepcopy(sc)
        c["config"]["pretty"] = False
        yield c
    if sc.get("config", {}).get("sink") != "str":
        c = copy.deepcopy(sc)
        c["config"]["sink"] = "str"
        yield c


def signature(sc, msg):
    return {"what": (msg or "").split(":")[0]}


def distribution(scenarios, observations):
    d = xc.stats(scenarios)
    d["pretty"] = sum(1 for s in scenarios if s.get("config", {}).get("pretty"))
    d["resave_bytes_identical"] = sum(1 for o in observations if o and o["same_bytes2"])   # <a></a> vs <a/> may differ
    d["sinks"] = {k: sum(1 for s in scenarios if s.get("config", {}).get("sink") == k) for k in ("str", "path", "Path")}
    d["cases_string_subtypes_below_string_subtypes"] = sum(1 for s in scenarios if s.get("knobs", {}).get("deep_string"))
    red = [m for s in scenarios for m in (s.get("knobs", {}).get("redeclared") or [])]
    d["features_declared_on_subtype_then_supertype"] = sum(1 for m in red if m[4] == "sub first")
    d["features_declared_on_supertype_then_subtype"] = sum(1 for m in red if m[4] == "super first")
    d["of_these_string_array_or_list"] = sum(1 for m in red if m[3] in (scen.T + "StringArray", scen.T + "StringList"))
    return d


MANIFEST = {
    "level_text": "Machine-checked proof (Coq 8.16) over executable models of the XMI writer (incl. the _find_all_fs worklist) "
                  "and of the XMI reader and a declarative denotation of XMI documents: for every well-formed CAS the written "
                  "document is closed, denotes the canonical content of the CAS and satisfies the premise of the reader's "
                  "theorem, so the CAS the reader model builds from it has the same views, sofa data, feature structures under "
                  "the same xmi:ids, values, reference targets and members (up to \"\"/null in string collections); per "
                  "feature kind decode(encode v) = v for all writer branches, offsets included. Tied to /repo on every run: "
                  "to_xmi -> load_cas_from_xmi -> to_xmi is executed for pretty_print x sink combinations and, inside Coq, the "
                  "first document is compared with the model writer's, the loaded CAS with the denotation, with the model "
                  "reader's result and with the model's canonical content, and the second document with the first (infoset).",
    "level_note": "The round trip is proved in the exists form (C01_xmi_roundtrip: the reader model succeeds on every document "
                  "the writer model emits, under input well-formedness wf_rt_totalb, and yields the canonical content of the "
                  "saved CAS; ids kept); re-save is proved over canonical content (equal content => the same elements, as a "
                  "Permutation of the document). Still open: load_produces_wf (a CAS that was itself loaded satisfies the writer's "
                  "premises) - its conclusion is evaluated on every case. Byte layer (escaping, prefixes, whitespace, float lexemes) "
                  "below the abstract documents; sinks and pretty_print compared byte-wise by the oracle. Trusted: Coq kernel + "
                  "vm_compute; models Reach.v/Xmi.v/XmiLoad.v/XmiDoc.v/Lex.v/Offsets.v; xml.etree; harness/scen.py; float contract.",
    "technique": "Coq proof over an executable Gallina model + in-Coq behavioural correspondence + byte-level oracle for sinks",
    "design_ref": "DESIGN.md section 5, C01; section 4.4",
}
