"""C01 — XMI save/load is lossless: same views, FS graph, values, ids and indexes; the re-save is the same document."""
import copy
import os
import pathlib
import random
import shutil

from harness import scen, xmlabs
from harness.props import xmicommon as xc

ID = "C01"
COQ_TARGETS = ["Lex.vo", "LexProofs.vo", "XmiDoc.vo", "Xmi.vo", "XmiProofs.vo", "ReachProofs.vo", "ReachSpec.vo", "XmiWf.vo", "XmiDocOk.vo", "XmiResave.vo",
               "XmiLoad.vo", "XmiLoadProofs.vo", "XmiLoadProofs2.vo", "XmiLoadProofs3.vo", "XmiRt.vo", "XmiRtProofs.vo", "XmiRtTotal.vo",
               "XmiRtTotalProofs.vo", "XmiLoadCas.vo", "CorrC04.vo", "CorrC01.vo", "XmiExample.vo", "Props/C01.vo"]
PROPS_FILE = "Props/C01.v"
CORR_IMPORTS = "Base Heap Schema Canon XmiDoc Xmi CorrC01"
OPEN_SCOPES = ["Z_scope"]
ENTRY = "cassis.cas.Cas.to_xmi / cassis.xmi.load_cas_from_xmi"
CASES_PER_SHARD = 30
SHARD_BYTES = 260_000
RULE = (
    "the C04 scenarios (type systems with deep hierarchies, no-namespace types, colliding package suffixes, reserved names "
    "self/type, begin/end on non-annotations, a user subtype of uima.cas.String; CASes with 1-3 views incl. astral text, "
    "sofa URI / byte array, every primitive, array and list kind inline and shared, empty collections, null elements, "
    "cycles, indexed and referenced-only structures, some without an id) x pretty_print in {False, True} x sink in "
    "{None -> string, str path, pathlib.Path}, drawn per case. A case is non-trivial when it has >= 2 structures and a "
    "reference or collection slot is set."
)
TRUSTED = [
    "Coq 8.16.1 kernel and vm_compute; theorems in Props/C01.v are closed under the global context or depend only on the "
    "float contract (section premises flt_rt / flt_tok)",
    "hand-written models coq/Reach.v, coq/Xmi.v (writer), coq/XmiLoad.v (reader, C05), coq/XmiDoc.v (denotation of "
    "documents), coq/Lex.v, coq/Offsets.v",
    "xml.etree.ElementTree as XML parser for the abstract documents (harness/xmlabs.py); escaping, prefixes, whitespace "
    "and the sinks are compared byte-wise by the oracle, not modelled",
    "harness/scen.py: builders through the public API and the canonical observation canon() by identity-based traversal",
    "Python repr(float) / float(str) for the float literal table; contract checked on every case",
]
ASSUMPTIONS = [
    "schema and input CAS inside wf_rtb (XmiRt.v): wf_inb of C04 + the schema answers like a TypeSystem (schema_okb, "
    "sofa_feat_okb), defines uima.cas.NULL, type names survive the reader's string surgery, the CAS has _InitialView and "
    "indexed annotations are indexed in the view of their own sofa; load_cas_from_xmi is given the type system of the CAS",
    "wf_rt_totalb (XmiRtTotal.v) = wf_rtb + every structure whose type has the feature sofa holds the sofa of a view of this "
    "CAS (Cas.add guarantees it for indexed structures; DESIGN 4.4: every serialised annotation has a sofa of this CAS): the "
    "premise of the unconditional round trip C01_xmi_roundtrip; without it the reader raises KeyError on the writer's own "
    "output (C01_reader_total_wf_rtb_refuted: referenced-only annotation whose sofa was never set)",
    "collections held by features without multipleReferencesAllowed are compared by content (object identity of inlined "
    "arrays / lists is not expressible in XMI); \"\" and null inside string arrays / lists are identified",
]


def generate(rng, tier):
    from harness.props import C04
    cassis = C04._load()
    n = {"quick": 150, "thorough": 2000, "search": 2500}[tier]
    for _ in range(n):
        r = random.Random(rng.getrandbits(48))
        sc = xc.gen_scenario(r, cassis, tier)
        sc["config"] = {"pretty": r.random() < 0.5, "sink": r.choice(["str", "path", "Path"])}
        yield sc


def _save(cas, cfg, tag):
    """to_xmi through the configured sink; returns the bytes written (files under /verif/.work/<pid>/, removed)."""
    pretty = cfg["pretty"]
    if cfg["sink"] == "str":
        return cas.to_xmi(pretty_print=pretty).encode("utf-8"), None
    from harness import core
    d = os.path.join(core.VERIF, ".work", str(os.getpid()))
    os.makedirs(d, exist_ok=True)
    try:
        p = os.path.join(d, f"{tag}.xmi")
        res = cas.to_xmi(p if cfg["sink"] == "path" else pathlib.Path(p), pretty_print=pretty)
        with open(p, "rb") as f:
            data = f.read()
        return data, res
    finally:
        shutil.rmtree(d, ignore_errors=True)


def run_impl(cassis, sc):
    xc.STATE["cassis"] = cassis
    cfg = sc.get("config") or {"pretty": False, "sink": "str"}
    ts, cas, _views, objs = xc.build(cassis, sc)
    sofas = [[s.xmiID, s.sofaNum] for s in cas.sofas]
    data1, ret1 = _save(cas, cfg, "a")
    as_string = cas.to_xmi(pretty_print=cfg["pretty"])                 # the same CAS again, to the string sink
    before = scen.canon(cas, "xmi")
    ids = {l: o.xmiID for l, o in objs.items()}
    loaded = cassis.load_cas_from_xmi(data1.decode("utf-8") if cfg["sink"] == "str" else __import__("io").BytesIO(data1),
                                      typesystem=ts)
    after = scen.canon(loaded, "xmi")
    data2, _ = _save(loaded, cfg, "b")
    return {"doc": xmlabs.parse(data1), "doc2": xmlabs.parse(data2), "before": before, "after": after, "ids": ids,
            "sofas": sofas, "same_bytes": data1 == as_string.encode("utf-8"), "same_bytes2": data1 == data2,
            "ret": repr(ret1), "decl": data1[:60].decode("utf-8", "replace")}


def norm(cc):
    """\"\" = null inside string arrays / lists (the only value equivalence C01 allows)."""
    cc = copy.deepcopy(cc)
    strs = (scen.T + "StringArray", scen.T + "StringList")

    def fix(l):
        return [None if (e is not None and e[0] == "s" and e[1] == "") else e for e in l]

    for d in cc["fs"].values():
        for k, v in d["feats"].items():
            if v is None:
                continue
            if v[0] == "coll" and v[1] in strs:
                d["feats"][k] = ["coll", v[1], fix(v[2] or [])]
            elif v[0] == "list" and d["type"] == strs[0]:
                d["feats"][k] = ["list", fix(v[1])]
    return cc


def oracle(cassis, sc, obs):
    msg = xc.float_contract(sc["cas"])
    if msg:
        return "float contract: " + msg
    a, b = norm(obs["before"]), norm(obs["after"])
    if sorted(a["fs"]) != sorted(b["fs"]):
        return f"ids: before {sorted(a['fs'])[:12]} after load {sorted(b['fs'])[:12]}"
    for i in a["fs"]:
        if a["fs"][i]["type"] != b["fs"][i]["type"]:
            return f"type: id {i} was {a['fs'][i]['type']}, loaded as {b['fs'][i]['type']}"
        fa, fb = a["fs"][i]["feats"], b["fs"][i]["feats"]
        for k in sorted(set(fa) | set(fb)):
            if fa.get(k) != fb.get(k):
                return f"value: id {i} ({a['fs'][i]['type']}) feature {k}: {fa.get(k)!r} became {fb.get(k)!r}"
    for sa, sb in zip(a["sofas"], b["sofas"]):
        for k in ("id", "num", "name", "text", "mime", "uri", "arr"):
            if sa[k] != sb[k]:
                return f"sofa: {k} of sofa {sa['id']} was {sa[k]!r}, loaded as {sb[k]!r}"
        if sa["members"] != sb["members"]:
            return f"members: view {sa['name']} had {sa['members']}, loaded {sb['members']}"
    if len(a["sofas"]) != len(b["sofas"]):
        return f"sofa: {len(a['sofas'])} sofas before, {len(b['sofas'])} after load"
    if xmlabs.infoset(obs["doc"]) != xmlabs.infoset(obs["doc2"]):
        d1, d2 = xmlabs.infoset(obs["doc"]), xmlabs.infoset(obs["doc2"])
        diff = next((x, y) for x, y in zip(d1 + [None], d2 + [None]) if x != y)
        return f"resave: second document differs from the first: {diff[0]!r} vs {diff[1]!r}"
    if not obs["same_bytes"]:
        return f"sink: bytes written to sink {sc['config']['sink']} differ from the string returned by to_xmi()"
    if sc["config"]["sink"] != "str" and obs["ret"] != "None":
        return f"sink: to_xmi(path) returned {obs['ret']}"
    if not obs["decl"].startswith("<?xml version='1.0' encoding='UTF-8'?>"):
        return f"sink: document starts with {obs['decl']!r}"
    return None


def render(sc, obs):
    cassis = xc.STATE["cassis"]
    schema, names = xc.schema_and_names(cassis, sc)
    return "mkCase\n %s\n (%s)\n %s\n %s\n (%s)\n %s" % (
        scen.g_schema(schema, names), xc.g_cas(sc["cas"], obs["ids"], obs["sofas"]), xc.g_ftab(sc["cas"]),
        xmlabs.g_xdoc(obs["doc"]), scen.g_ccas(obs["after"]), xmlabs.g_xdoc(obs["doc2"]))


nontrivial = xc.nontrivial


def shrink_candidates(sc):
    for c in xc.shrink_candidates(sc):
        yield c
    if sc.get("config", {}).get("pretty"):
        c = copy.deepcopy(sc)
        c["config"]["pretty"] = False
        yield c
    if sc.get("config", {}).get("sink") != "str":
        c = copy.deepcopy(sc)
        c["config"]["sink"] = "str"
        yield c


def signature(sc, msg):
    return {"what": (msg or "").split(":")[0]}


def distribution(scenarios, observations):
    d = xc.stats(scenarios)
    d["pretty"] = sum(1 for s in scenarios if s.get("config", {}).get("pretty"))
    d["resave_bytes_identical"] = sum(1 for o in observations if o and o["same_bytes2"])   # <a></a> vs <a/> may differ
    d["sinks"] = {k: sum(1 for s in scenarios if s.get("config", {}).get("sink") == k) for k in ("str", "path", "Path")}
    return d


MANIFEST = {
    "level_text": "Machine-checked proof (Coq 8.16) over executable models of the XMI writer (incl. the _find_all_fs worklist) "
                  "and of the XMI reader and a declarative denotation of XMI documents: for every well-formed CAS the written "
                  "document is closed, denotes the canonical content of the CAS and satisfies the premise of the reader's "
                  "theorem, so the CAS the reader model builds from it has the same views, sofa data, feature structures under "
                  "the same xmi:ids, values, reference targets and members (up to \"\"/null in string collections); per "
                  "feature kind decode(encode v) = v for all writer branches, offsets included. Tied to /repo on every run: "
                  "to_xmi -> load_cas_from_xmi -> to_xmi is executed for pretty_print x sink combinations and, inside Coq, the "
                  "first document is compared with the model writer's, the loaded CAS with the denotation, with the model "
                  "reader's result and with the model's canonical content, and the second document with the first (infoset).",
    "level_note": "The round trip is proved in the exists form (C01_xmi_roundtrip: the reader model succeeds on every document "
                  "the writer model emits, under input well-formedness wf_rt_totalb, and yields the canonical content of the "
                  "saved CAS; ids kept); re-save is proved over canonical content (equal content => the same elements, as a "
                  "Permutation of the document). Still open: load_produces_wf (a CAS that was itself loaded satisfies the writer's "
                  "premises) - its conclusion is evaluated on every case. Byte layer (escaping, prefixes, whitespace, float lexemes) "
                  "below the abstract documents; sinks and pretty_print compared byte-wise by the oracle. Trusted: Coq kernel + "
                  "vm_compute; models Reach.v/Xmi.v/XmiLoad.v/XmiDoc.v/Lex.v/Offsets.v; xml.etree; harness/scen.py; float contract.",
    "technique": "Coq proof over an executable Gallina model + in-Coq behavioural correspondence + byte-level oracle for sinks",
    "design_ref": "DESIGN.md section 5, C01; section 4.4",
}
