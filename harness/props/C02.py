"""C02 — JSON save/load is lossless and carries a sufficient type system."""
import copy
import json
import os
import random
import shutil
from pathlib import Path

from harness import jsonabs as J
from harness import scen
from harness.gallina import glist, gn, gopt, gstr, gz

ID = "C02"
COQ_TARGETS = ["JsonDoc.vo", "Json.vo", "JsonWf.vo", "JsonProofs.vo", "JsonProofs2.vo", "JsonLoadProofs.vo", "JsonLex.vo", "JsonDocOk.vo",
               "JsonRoundtrip.vo", "JsonResave.vo", "CorrC02.vo", "Props/C02.vo", "PropsJson.vo"]
PROPS_FILE = "Props/C02.v"
CORR_IMPORTS = "Base Heap Schema Canon Reach JsonDoc Json CorrC02"
OPEN_SCOPES = ["string_scope", "list_scope", "Z_scope"]
SHARD_BYTES = 160_000
CASES_PER_SHARD = 60
CASE_TIMEOUT_S = 30
ENTRY = "cassis.cas.Cas.to_json / cassis.json.CasJsonSerializer.serialize / load_cas_from_json / CasJsonDeserializer.deserialize"
RULE = (
    "Every case: a random type system (scen.gen_tspec: deep hierarchies, awkward feature names self/type/begin/end/id on "
    "non-annotations, every primitive/array/list kind, FSArray and, added here, FSList features with and without a "
    "declared element type (user or built-in), TOP-ranged features, a subtype of uima.cas.String; DocumentAnnotation "
    "extended in about half of the cases) and a well-formed CAS over it "
    "(scen.gen_cspec: 1-3 views with ASCII/BMP/astral/empty text, cycles, diamonds, shared and unshared collections, "
    "null elements, referenced-only structures, special floats, 8..64-bit limits) plus, added here, sofas that hold a "
    "URI or a byte array (with and without an id), a DocumentAnnotation instance, one id-less unindexed structure; and "
    "(after /repo d1bc860 and d94ad6a, from a random stream of its own) the byte array of a sofa is, in combinations, shared "
    "with a second sofa, indexed in a view, referenced by a TOP- or ByteArray-ranged feature or by an element of an FSArray; "
    "and (third stream of its own) in about half of the multi-view cases the further views are not all created before the "
    "first add: a view is created after some structures were added (its sofa takes the next free xmi:id, so xmi:id <> "
    "sofaNum), or through create_view(name, xmiID=.., sofaNum=..) with identifiers of its own. "
    "Configurations: type_system_mode x (typesystem argument, merge_typesystem) in the 8 combinations the API can serve "
    "x pretty_print x ensure_ascii x sink in {string, str path, Path} are enumerated round-robin so that every "
    "combination occurs; every case additionally loads the document under all its applicable (typesystem, merge) "
    "arguments and in a presentation variant of the harness's own writer (FS as id-keyed object, FS order reversed / "
    "shuffled / sofas last, type declarations and members shuffled). The oracle demands every structure exactly once in the document, one Python "
    "object per id in every loaded CAS (identity: what was shared is shared) and an equal re-serialisation. "
    "A case is non-trivial when the CAS has >= 2 "
    "feature structures and at least one reference or collection feature set."
)
TRUSTED = [
    "Coq 8.16.1 kernel and vm_compute; Print Assumptions of every theorem in Props/C02.v: closed under the global context",
    "hand-written models coq/JsonDoc.v (format), coq/Json.v (writer, reader, transitive_closure), shared coq/Reach.v "
    "(Cas._find_all_fs), coq/Offsets.v (offset converter), coq/Schema.v (type system seen through ancestors and "
    "effective features; that a TypeSystem answers like its schema is C10/C11)",
    "lexical layer outside the model: JSON text <-> abstract JSON is the stdlib json module (harness/jsonabs.py; "
    "floats as float.hex() tokens, never rounded through text); UTF-8 and base64 are the premise lex_ok of the theorems, "
    "instantiated by concrete Coq codecs in the correspondence and tested on every generated text and byte array",
    "harness/scen.py: scenario builders through the public API, independent schema computation, identity-based canonical "
    "observation of a CAS (never _find_all_fs / to_* / typecheck)",
    "ReachProofs / ReachSpec (ids_assigned, find_all_shape, find_all_each_once, find_all_closed, find_all_fs_stable, "
    "succs_declarative) for what the traversal returns and leaves behind; the former premises stableb (second traversal) "
    "and reader = denotation are theorems now (denote_save_json without stableb, load_json_is_denotation); lex_ok is "
    "proved for the concrete UTF-8 / base64 codecs (std_lex_ok); doc_ok_json of the written document is a theorem for all "
    "inputs (C02_json_doc_ok, coq/JsonDocOk.v) under the boolean premises wf_jsonb, ids_distinctb, refs_wfb and typed_jsonb "
    "(coq/JsonWf.v: ids positive, sofaNums distinct, members indexed once with their own view's sofa, slots hold values of the "
    "kind of their range) which are evaluated per case on the CAS the writer model leaves behind; hence C02_json_roundtrip has "
    "no premise about the document, the reader or the definedness of the canonical content (C02_canon_json_after_save); "
    "re-serialisation is proved at the level of JSON values (coq/JsonResave.v: the writer's document is doc_of_canon of the "
    "canonical content, C02_save_json_canon; C02_json_resave_equal: same canonical content + same mode + same order of views "
    "=> the same document; with another view order only the sofa prefix of %FEATURE_STRUCTURES and %VIEWS are permuted)",
]
ASSUMPTIONS = [
    "user type names do not start with the reserved pseudo-package 'uima.noNamespace.' and do not end in '[]'",
    "feature names do not start with '%', '@' or '#'; one definition of a name per inheritance chain",
    "array structures hold a list in `elements` (None is written like [] and comes back as [])",
    "annotations carry the sofa of a view of the CAS and offsets inside its text; sofa texts have no lone surrogates",
    "the byte array of a sofa holds bytes (uima.cas.ByteArray); it may serve several sofas and be indexed / referenced as well",
    "explicit ids of unindexed structures do not collide with ids the generator hands out later (during the save, or to the "
    "sofa of a view created after some adds); xmi:ids (sofas included) and sofaNums are distinct",
    "ids of structures without an explicit id are compared only where the traversal order cannot depend on id() (at most "
    "one such structure besides the sofa byte arrays)",
]

DA = "uima.tcas.DocumentAnnotation"
MODES = ["FULL", "MINIMAL", "NONE"]
LOADS = {"FULL": [["absent", True], ["orig", True], ["orig", False]],
         "MINIMAL": [["absent", True], ["orig", True], ["orig", False]],
         "NONE": [["orig", True], ["orig", False]]}
COMBOS = [(m, l, p, a, s) for m in MODES for l in LOADS[m] for p in (False, True) for a in (False, True)
          for s in ("str", "path", "Path")]
VARIANTS = [
    {"fs_form": "dict", "fs_order": "keep", "type_order": "keep", "member_order": "keep"},
    {"fs_form": "list", "fs_order": "reverse", "type_order": "reverse", "member_order": "keep"},
    {"fs_form": "list", "fs_order": "sofa_last", "type_order": "shuffle", "member_order": "shuffle"},
    {"fs_form": "dict", "fs_order": "shuffle", "type_order": "shuffle", "member_order": "shuffle"},
    {"fs_form": "dict", "fs_order": "sofa_last", "type_order": "keep", "member_order": "reverse"},
    {"fs_form": "list", "fs_order": "shuffle", "type_order": "keep", "member_order": "reverse"},
]


# ------------------------------------------------------------------------------------------------ scenarios


def _extend(r, cassis, tspec, cspec):
    """Knobs this property adds to scen's scenarios: non-text sofa data, DocumentAnnotation, id-less structures."""
    da_feats = []
    user = [t["name"] for t in tspec if t["name"] != "a.MyStr"]
    if r.random() < 0.5:
        da_feats.append({"name": "docId", "range": "uima.cas.String", "elem": None, "multi": None})
        if r.random() < 0.5:
            da_feats.append(r.choice([
                {"name": "docRef", "range": r.choice(user), "elem": None, "multi": None},
                {"name": "docInts", "range": "uima.cas.IntegerArray", "elem": None, "multi": r.choice([None, True, False])},
                {"name": "docScore", "range": "uima.cas.Double", "elem": None, "multi": None}]))
    schema = schema2(cassis, tspec, da_feats)
    objs, members, views = cspec["objs"], cspec["members"], cspec["views"]
    used = {o["id"] for o in objs if o["id"] is not None} | set(range(1, len(views) + 1))
    lab = max(o["o"] for o in objs)

    def fresh_id():
        i = max(used) + r.randint(1, 3)
        used.add(i)
        return i

    ann_views = set()
    for o in objs:
        s = o["slots"].get("sofa")
        if s:
            ann_views.add(s["sofa"])
    for v in views:
        v.setdefault("uri", None)
        v.setdefault("array", None)
        if v["name"] not in ann_views and r.random() < 0.6:
            kind = r.choice(["array", "array", "uri", "both", "none"])
            v["text"] = None
            if kind in ("array", "both"):
                lab += 1
                n = r.choice([0, 1, 2, 3, 4, 7])
                objs.append({"o": lab, "type": "uima.cas.ByteArray", "id": r.choice([None, None, fresh_id()]),
                             "slots": {"elements": {"list": [{"i": r.choice([0, 255, 65, r.randint(0, 255)])} for _ in range(n)]}}})
                v["array"] = lab
            if kind in ("uri", "both"):
                v["uri"] = r.choice(["file:/tmp/x.bin", "http://example.org/a?b=c&d", ""])
        elif r.random() < 0.15:
            v["uri"] = "urn:x"
    # a DocumentAnnotation instance in one view
    if r.random() < 0.5:
        vi = r.randrange(len(views))
        if views[vi]["text"] is None and views[vi]["array"] is None:
            views[vi]["text"] = r.choice(scen.TEXTS)
        if views[vi]["text"] is not None:
            lab += 1
            slots = {"sofa": {"sofa": views[vi]["name"]}, "begin": {"i": 0}, "end": {"i": len(views[vi]["text"])},
                     "language": {"s": r.choice(["en", "x-unspecified", ""])}}
            for f in da_feats:
                if r.random() < 0.7:
                    if f["range"] == "uima.cas.String":
                        slots[f["name"]] = {"s": "doc-1"}
                    elif f["range"] == "uima.cas.Double":
                        slots[f["name"]] = scen.rval(r, "float")
                    elif f["range"] == "uima.cas.IntegerArray":
                        lab += 1
                        objs.append({"o": lab, "type": f["range"], "id": fresh_id(),
                                     "slots": {"elements": {"list": [{"i": 7}, {"i": -1}]}}})
                        slots[f["name"]] = {"ref": lab}
                    else:
                        c = [o["o"] for o in objs if f["range"] in schema[o["type"]]["anc"]]
                        if c:
                            slots[f["name"]] = {"ref": r.choice(c)}
            lab += 1
            objs.append({"o": lab, "type": DA, "id": fresh_id(), "slots": slots})
            members.append([vi, lab])
    # at most one unindexed structure without an id (it gets one during the save)
    mem = {l for _v, l in members}
    arrays = {v["array"] for v in views if v.get("array")}
    cand = [o for o in objs if o["o"] not in mem and o["o"] not in arrays and o["id"] is not None]
    if cand and r.random() < 0.35:
        r.choice(cand)["id"] = None
    # explicit ids of unindexed structures stay away from the ids the generator will hand out
    nxt = next_id(cspec)
    for o in objs:
        if o["o"] not in mem and o["id"] is not None and nxt <= o["id"] < nxt + 8:
            used.discard(o["id"])
            o["id"] = max(used) + 9
            used.add(o["id"])
    return da_feats


def id_plan(cspec):
    """What the two id generators of the Cas (xmi:id, sofaNum) do while the CAS of the scenario is built, from the scenario
    alone: the initial view takes 1 / 1 in the constructor; a further view is created after `after` of the adds of
    cspec["members"] (default 0: before all of them; never later than its own first member or than the view after it) and
    takes the next xmi:id unless the scenario names one (`sid`: create_view(name, xmiID=sid), reserved like an id kept by
    add), likewise the next sofaNum unless `num` names one; add(keep_id) reserves (ba2e314).  Returns (xmi:ids of the
    sofas, their sofaNums, the next xmi:id before the save)."""
    views, members = cspec["views"], cspec["members"]
    ids = {o["o"]: o["id"] for o in cspec["objs"]}
    n = len(views)
    sid, num = [None] * n, [None] * n
    st = {"x": 1, "n": 1, "v": 0}

    def create(pos, view=-1):
        while st["v"] < n and (st["v"] == 0 or views[st["v"]].get("after", 0) <= pos or st["v"] <= view):
            v = views[st["v"]] if st["v"] else {}
            if v.get("sid") is None:
                sid[st["v"]] = st["x"]
                st["x"] += 1
            else:
                sid[st["v"]] = v["sid"]
                st["x"] = max(st["x"], v["sid"] + 1)
            if v.get("num") is None:
                num[st["v"]] = st["n"]
                st["n"] += 1
            else:
                num[st["v"]] = v["num"]
                st["n"] = max(st["n"], v["num"] + 1)
            st["v"] += 1

    create(0)
    for p, (vi, l) in enumerate(members):
        create(p, vi)
        if ids[l] is None:
            ids[l] = st["x"]
            st["x"] += 1
        elif ids[l] >= st["x"]:
            st["x"] = ids[l] + 1
    create(len(members), n)
    return sid, num, st["x"]


def next_id(cspec):
    """State of the xmi:id generator before the save, from the scenario: sofas take 1..n (or what id_plan says when views are
    created later / with ids of their own), add(keep_id) reserves (ba2e314)."""
    return id_plan(cspec)[2]


def ids_clash(cspec):
    """two structures (sofas included) under one explicit xmi:id, or two sofas with one sofaNum: not a CAS of the property"""
    sid, num, _nxt = id_plan(cspec)
    ids = [o["id"] for o in cspec["objs"] if o["id"] is not None] + sid
    return len(set(ids)) != len(ids) or len(set(num)) != len(num)


def schema2(cassis, tspec, da_feats):
    """scen.schema_of plus features added to DocumentAnnotation after everything else was created."""
    sch = scen.schema_of(cassis, tspec)
    if not da_feats:
        return sch
    extras = [(scen.pyname(f["name"]), f["name"], f["range"], f.get("elem"), bool(f.get("multi"))) for f in da_feats]
    out = {}
    for n, s in sch.items():
        feats = list(s["feats"])
        if n == DA:
            k = [f[0] for f in feats].index("language") + 1
            feats = feats[:k] + extras + feats[k:]
        elif DA in s["anc"]:
            feats = feats + extras
        out[n] = {"anc": s["anc"], "feats": feats}
    return out


def build_ts(cassis, tspec, da_feats):
    ts = scen.build_ts(cassis, tspec)
    for f in da_feats:
        ts.create_feature(ts.get_type(DA), f["name"], f["range"], elementType=f.get("elem"),
                          multipleReferencesAllowed=f.get("multi"))
    return ts


def build_cas_in_time(cassis, ts, cspec):
    """scen.build_cas for a CAS whose views are not all created before the first add: view i (i >= 1) is created after
    `after` of the adds (so its sofa takes an xmi:id above the ids in use by then, while its sofaNum is i + 1), or with an
    xmi:id / sofaNum of its own through the documented keywords of Cas.create_view.  The order of the views, of the adds and
    everything else is as in scen.build_cas; a `sofa` slot waits until its view exists."""
    cas = cassis.Cas(typesystem=ts)
    specs = cspec["views"]
    views, vname, waiting = [], {}, []
    objs = {}
    for o in cspec["objs"]:
        kw = {}
        if o.get("id") is not None:
            kw["xmiID"] = o["id"]
        objs[o["o"]] = ts.get_type(o["type"])(**kw)

    def make_views(pos, upto=-1):
        while len(views) < len(specs) and (not views or specs[len(views)].get("after", 0) <= pos or len(views) <= upto):
            v = specs[len(views)]
            if not views:
                view = cas
            else:
                kw = {}
                if v.get("sid") is not None:
                    kw["xmiID"] = v["sid"]
                if v.get("num") is not None:
                    kw["sofaNum"] = v["num"]
                view = cas.create_view(v["name"], **kw)
            if v.get("text0") is not None and v.get("text") is not None:
                view.sofa_string = "".join(chr(c) for c in v["text0"])
            if v.get("text") is not None:
                view.sofa_string = "".join(chr(c) for c in v["text"])
            if v.get("mime") is not None:
                view.sofa_mime = v["mime"]
            views.append(view)
            vname[v["name"]] = view
            for x, k, name in list(waiting):
                if name == v["name"]:
                    setattr(x, k, view.get_sofa())
                    waiting.remove((x, k, name))

    def conv(v):
        if v is None:
            return None
        if "i" in v:
            return v["i"]
        if "f" in v:
            return scen.unfl(v["f"])
        if "b" in v:
            return v["b"]
        if "s" in v:
            return v["s"]
        if "ref" in v:
            return objs[v["ref"]]
        if "list" in v:
            return [conv(e) for e in v["list"]]
        raise ValueError(v)

    make_views(0)
    for o in cspec["objs"]:
        for k, v in o["slots"].items():
            if v is not None and "sofa" in v:
                if v["sofa"] in vname:
                    setattr(objs[o["o"]], k, vname[v["sofa"]].get_sofa())
                else:
                    waiting.append((objs[o["o"]], k, v["sofa"]))
            else:
                setattr(objs[o["o"]], k, conv(v))
    for p, (vi, lab) in enumerate(cspec["members"]):
        make_views(p, vi)
        views[vi].add(objs[lab], keep_id=True)
    make_views(len(cspec["members"]), len(specs))
    return cas, views, objs


def in_time(cspec):
    return any(v.get("after") or v.get("sid") is not None or v.get("num") is not None for v in cspec["views"])


def build(cassis, sc):
    ts = build_ts(cassis, sc["tspec"], sc["da_feats"])
    if in_time(sc["cspec"]):
        cas, views, objs = build_cas_in_time(cassis, ts, sc["cspec"])
    else:
        cas, views, objs = scen.build_cas(cassis, ts, sc["cspec"])
    for i, v in enumerate(sc["cspec"]["views"]):
        if v.get("uri") is not None:
            views[i].sofa_uri = v["uri"]
        if v.get("array") is not None:
            views[i].sofa_array = objs[v["array"]]
    return ts, cas, views, objs


def share_sofa_arrays(r, cassis, tspec, da_feats, cspec):
    """Sofa byte arrays that are more than the private data of one sofa (/repo d1bc860, d94ad6a): shared by a second sofa,
    indexed in a view, referenced by a feature (range TOP or ByteArray) or by an element of an FSArray, with and without an id,
    in combinations.  Drawn from a random stream of its own so that the rest of every scenario is what it was.  Returns the
    list of knobs applied (for the distribution)."""
    schema = schema2(cassis, tspec, da_feats)
    objs, members, views = cspec["objs"], cspec["members"], cspec["views"]
    by = {o["o"]: o for o in objs}
    ann_views = {o["slots"]["sofa"]["sofa"] for o in objs if o["slots"].get("sofa")}
    free = [i for i, v in enumerate(views) if v["name"] not in ann_views and v.get("array") is None]
    knobs = []
    used = {o["id"] for o in objs if o["id"] is not None} | set(range(1, len(views) + 1))
    if not any(v.get("array") is not None for v in views) and free and r.random() < 0.6:
        # no sofa holds an array yet: give one to a view that has no annotations
        i = free.pop(r.randrange(len(free)))
        lab = max(o["o"] for o in objs) + 1
        n = r.choice([0, 1, 3, 5])
        objs.append({"o": lab, "type": "uima.cas.ByteArray", "id": None,
                     "slots": {"elements": {"list": [{"i": r.choice([0, 255, 10, r.randint(0, 255)])} for _ in range(n)]}}})
        by[lab] = objs[-1]
        views[i]["array"] = lab
        views[i]["text"] = None
        knobs.append("added")
    shared_to = set()
    for i, v in enumerate(list(views)):
        a = v.get("array")
        if a is None or i in shared_to:
            continue
        arr = by[a]
        if free and r.random() < 0.55:
            j = free.pop(r.randrange(len(free)))
            views[j]["array"] = a
            if r.random() < 0.7:
                views[j]["text"] = None
            shared_to.add(j)
            knobs.append("shared")
        if r.random() < 0.4:
            if arr["id"] is None:           # an indexed structure carries an id (Cas.add hands one out): make it explicit
                arr["id"] = max(used) + r.randint(1, 3)
                used.add(arr["id"])
            members.append([r.randrange(len(views)), a])
            knobs.append("indexed")
        if r.random() < 0.45:
            holders = []
            for o in objs:
                if o["type"] not in schema or o["o"] == a or o["type"] in scen.ARRS or o["type"] == scen.FS_ARRAY:
                    continue          # (`elements` of an array type is declared with range TOP: not a feature to set)
                for pn, _xn, rng, _el, _multi in schema[o["type"]]["feats"]:
                    if rng in (scen.TOP, "uima.cas.ByteArray") and pn != "sofa":
                        holders.append((o, pn))
            fsarrs = [o for o in objs if o["type"] == scen.FS_ARRAY and isinstance(o["slots"].get("elements"), dict)]
            pick = r.random()
            if holders and (pick < 0.75 or not fsarrs):
                o, pn = r.choice(holders)
                o["slots"][pn] = {"ref": a}
                knobs.append("referenced")
            elif fsarrs:
                o = r.choice(fsarrs)
                o["slots"]["elements"]["list"].append({"ref": a})
                knobs.append("element")
    if any(k in ("shared", "indexed", "referenced", "element") for k in knobs):
        knobs.append("idless" if any(by[v["array"]]["id"] is None for v in views if v.get("array") is not None) else "with_id")
    keep_ids_apart(cspec)
    return knobs


def keep_ids_apart(cspec):
    """ASSUMPTIONS: explicit ids of unindexed structures stay away from the ids the generator hands out during a save (to the
    id-less sofa byte arrays and to the id-less unindexed structure)."""
    objs = cspec["objs"]
    mem = {l for _v, l in cspec["members"]}
    sids, _nums, nxt = id_plan(cspec)
    used = {o["id"] for o in objs if o["id"] is not None} | set(sids)
    for o in objs:
        if o["o"] not in mem and o["id"] is not None and nxt <= o["id"] < nxt + 8:
            used.discard(o["id"])
            o["id"] = max(used | {nxt + 8}) + 9
            used.add(o["id"])


def vary_sofa_ids(r, cspec):
    """A CAS is what a history of API calls leaves behind, and nothing makes the views come first: a view created after
    structures were added has a sofa whose xmi:id (next free id) differs from its sofaNum (number of the view), and
    Cas.create_view documents xmiID= / sofaNum= for a sofa with identifiers of its own.  scen.build_cas creates all views
    before the first add, so every generated sofa had xmi:id = sofaNum = position.  Here, for about half of the multi-view
    scenarios, each further view is created late (after >= 1 adds), or with a given xmi:id (above the ids in use, or the
    smallest free one) and now and then a given sofaNum, or as before.  Drawn from a stream of its own; explicit ids of
    structures that would coincide with an id a late sofa takes are moved (ASSUMPTIONS: ids distinct).  Returns the knobs."""
    views, members, objs = cspec["views"], cspec["members"], cspec["objs"]
    n = len(views)
    if n < 2 or r.random() >= 0.6:
        return []
    first = [next((p for p, (vi, _l) in enumerate(members) if vi == i), len(members)) for i in range(n)]
    hi = list(first)
    for i in range(n - 2, -1, -1):
        hi[i] = min(hi[i], hi[i + 1])
    used = {o["id"] for o in objs if o["id"] is not None} | set(range(1, n + 1))
    kinds = [r.choice(["late", "late", "late", "given", "given", "plain"]) for _ in range(n - 1)]
    if all(k == "plain" for k in kinds):
        kinds[r.randrange(n - 1)] = r.choice(["late", "given"])
    knobs, prev, numc = [], 0, 2
    for i in range(1, n):
        kind, v = kinds[i - 1], views[i]
        if kind == "late" and hi[i] < max(prev, 1):
            kind = "given"          # its first member is the first add of all: it cannot come late
        v["after"] = prev
        if kind == "late":
            v["after"] = prev = r.randint(max(prev, 1), hi[i])
        elif kind == "given":
            free = min(x for x in range(n + 1, max(used) + 2) if x not in used)
            v["sid"] = r.choice([max(used) + r.randint(1, 3), max(used) + 1, free])
            used.add(v["sid"])
            if r.random() < 0.4:
                v["num"] = numc + r.randint(1, 3)
                numc = v["num"]
                knobs.append("num_given")
        numc += 1
        knobs.append(kind)
    # ids are distinct: a structure whose explicit id a late sofa takes (or a sofa given the id another sofa takes) moves away
    for _ in range(40):
        sids, _nums, _nxt = id_plan(cspec)
        top = max(used | set(sids))
        dup = [i for i in range(1, n) if views[i].get("sid") is not None and sids.count(sids[i]) > 1]
        if dup:
            views[dup[0]]["sid"] = top + 1
            used.add(top + 1)
            continue
        hit = [o for o in objs if o["id"] is not None and o["id"] in sids]
        if not hit:
            break
        used.discard(hit[0]["id"])
        hit[0]["id"] = top + r.randint(1, 3)
        used.add(hit[0]["id"])
    else:  # pragma: no cover -- did not settle: leave the scenario as scen made it
        for v in views:
            v.pop("after", None), v.pop("sid", None), v.pop("num", None)
        return []
    keep_ids_apart(cspec)
    if ids_clash(cspec):  # pragma: no cover
        raise AssertionError("vary_sofa_ids left two structures under one id")
    sids, nums, _nxt = id_plan(cspec)
    if sids != nums:
        knobs.append("id_differs_from_num")
    return knobs


def list_element_types(r, tspec):
    """scen.gen_tspec declares an element type only on FSArray features.  TypeSystem.create_feature documents elementType
    for uima.cas.FSArray *and* uima.cas.FSList, and the JSON type section writes it differently for the two (array: inside
    the range 'X[]'; any other range: the member %ELEMENT_TYPE), so about two thirds of the FSList-ranged features get one
    here: a user type or a built-in one.  Drawn from a stream of its own: the rest of the scenario does not depend on it
    (list elements are as little constrained by the element type as FSArray elements are)."""
    user = [t["name"] for t in tspec if t["name"] != "a.MyStr"]
    for t in tspec:
        for f in t["feats"]:
            if f["range"] == scen.FS_LIST and f.get("elem") is None and r.random() < 0.67:
                f["elem"] = r.choice(user + user + [scen.ANNOTATION])


def generate(rng, tier):
    n = {"quick": 3 * len(COMBOS), "thorough": 12 * len(COMBOS), "search": 20 * len(COMBOS)}[tier]
    for k in range(n):
        sub = rng.randrange(1 << 30)
        yield make_scenario(sub, k, big=(tier != "quick" and k % 7 == 0), sofa_ids=True)


def make_scenario(sub, k, big=False, sofa_ids=False):
    import cassis  # only for the built-in table of scen.schema_of; the tree under test is already imported by the engine
    r = random.Random(sub)
    mode, load, pretty, asc, sink = COMBOS[k % len(COMBOS)]
    tspec = scen.gen_tspec(r, n_types=r.randint(2, 8 if big else 6), max_feats=r.randint(1, 5))
    if r.random() < 0.25:  # a user subtype of DocumentAnnotation
        for t in tspec:
            if t["super"] == scen.ANNOTATION and not any(f["name"] == "language" for f in t["feats"]):
                t["super"] = DA
                break
    list_element_types(random.Random(sub ^ 0x2E1E), tspec)
    cspec = scen.gen_cspec(r, cassis, tspec, n_objs=(1, 14 if big else 7), all_ids=True)
    da_feats = _extend(r, cassis, tspec, cspec)
    knobs = share_sofa_arrays(random.Random(sub ^ 0x50FA), cassis, tspec, da_feats, cspec)
    sofa_knobs = vary_sofa_ids(random.Random(sub ^ 0x50F1D), cspec) if sofa_ids else []
    variant = dict(VARIANTS[(k // len(COMBOS) + k) % len(VARIANTS)], seed=r.randrange(1 << 30))
    return {"tspec": tspec, "da_feats": da_feats, "cspec": cspec,
            "cfg": {"mode": mode, "load": load, "pretty": pretty, "ascii": asc, "sink": sink, "variant": variant,
                    "coq_variant": k % 3 == 0 or bool(knobs), "array_knobs": knobs, "sofa_knobs": sofa_knobs}}


# ------------------------------------------------------------------------------------------------ implementation driver


def _workdir():
    d = os.path.join(os.path.dirname(os.path.dirname(os.path.dirname(os.path.abspath(__file__)))), ".work", str(os.getpid()))
    os.makedirs(d, exist_ok=True)
    return d


def _to_json(cas, mode, pretty, asc, sink):
    from cassis.typesystem import TypeSystemMode
    m = getattr(TypeSystemMode, mode)
    if sink == "str":
        return cas.to_json(pretty_print=pretty, ensure_ascii=asc, type_system_mode=m).encode("utf-8")
    d = _workdir()
    try:
        p = os.path.join(d, "out.json")
        r = cas.to_json(p if sink == "path" else Path(p), pretty_print=pretty, ensure_ascii=asc, type_system_mode=m)
        if r is not None:
            raise AssertionError("to_json(path) returned a value")
        with open(p, "rb") as f:
            return f.read()
    finally:
        shutil.rmtree(d, ignore_errors=True)


def ts_dump(ts):
    """types, supertypes, own features with range / element type / multipleReferencesAllowed, through the public API"""
    out = {}
    for t in ts.get_types(built_in=True):
        out[t.name] = {"super": t.supertype.name if t.supertype is not None else None,
                       "feats": {(f.name[:-1] if f._has_reserved_name else f.name):
                                 [f.rangeType.name, f.elementType.name if f.elementType is not None else None,
                                  f.multipleReferencesAllowed] for f in t.all_features}}
    return out


def sofa_obs(cas):
    """sofa data and index membership through the public API (ids of members; the sofa byte array by its content)"""
    return [[s.xmiID, s.sofaNum, s.sofaID, s.sofaString, s.mimeType, s.sofaURI,
             None if s.sofaArray is None else list(s.sofaArray.elements or []),
             sorted(x.xmiID for x in cas.get_view(s.sofaID).select_all())] for s in cas.sofas]


def objects_per_id(cas):
    """xmiID -> number of distinct Python objects that carry it, over everything the CAS holds: view members, the byte arrays
    of the sofas, and whatever these reach through features, array elements and list nodes.  Identity-based (id()); the
    sofas themselves are left out.  More than one object under an id = sharing lost."""
    ts = cas.typesystem
    seen = {}
    todo = []
    for sofa in cas.sofas:
        todo.extend(cas.get_view(sofa.sofaID).select_all())
        if sofa.sofaArray is not None:
            todo.append(sofa.sofaArray)
    while todo:
        x = todo.pop()
        if x is None or not (hasattr(x, "type") and hasattr(x, "xmiID")) or hasattr(x, "sofaID") or id(x) in seen:
            continue
        seen[id(x)] = x
        try:
            feats = ts.get_type(x.type.name).all_features
        except Exception:  # noqa
            feats = []
        for f in feats:
            v = getattr(x, f.name, None)
            if isinstance(v, list):
                todo.extend(e for e in v if e is not None and not isinstance(e, (int, float, str, bool)))
            elif v is not None and not isinstance(v, (int, float, str, bool, bytes)):
                todo.append(v)
    count = {}
    for x in seen.values():
        count[x.xmiID] = count.get(x.xmiID, 0) + 1
    return count


def run_impl(cassis, sc):
    cfg = sc["cfg"]
    ts, cas, _views, _objs = build(cassis, sc)
    before = sofa_obs(cas)
    data = _to_json(cas, cfg["mode"], cfg["pretty"], cfg["ascii"], cfg["sink"])
    doc = J.parse(data)
    after = scen.canon(cas, "json")
    # the other spellings of the same save: flags flipped, plain string sink
    again = J.parse(_to_json(cas, cfg["mode"], not cfg["pretty"], not cfg["ascii"], "str"))
    obs = {"doc": doc, "before": before, "after_sofas": sofa_obs(cas), "canon": after, "again_equal": canon_doc(again) == canon_doc(doc),
           "ascii_ok": (not cfg["ascii"]) or all(b < 128 for b in data), "loads": []}
    text = data.decode("utf-8")
    for ts_arg, merge in LOADS[cfg["mode"]]:
        rec = {"ts": ts_arg, "merge": merge}
        try:
            ts_in = build_ts(cassis, sc["tspec"], sc["da_feats"]) if ts_arg == "orig" else None
            loaded = cassis.load_cas_from_json(text, typesystem=ts_in, merge_typesystem=merge)
            per_id = objects_per_id(loaded)
            rec["twice"] = sorted(i for i, n in per_id.items() if n > 1 and i is not None)
            rec["canon"] = scen.canon(loaded, "json")
            rec["tsdump"] = ts_dump(loaded.typesystem)
            rec["resave"] = J.parse(_to_json(loaded, cfg["mode"], cfg["pretty"], cfg["ascii"], "str"))
            rec["canon_after_resave"] = scen.canon(loaded, "json")
            # the id generator was reseeded past every id of the document (sofas included)
            taken = {int(i) for i in rec["canon"]["fs"]} | {s_["id"] for s_ in rec["canon"]["sofas"]}
            fresh = loaded.typesystem.get_type(scen.ANNOTATION)(begin=0, end=0)
            loaded.add(fresh, keep_id=False)
            rec["fresh_id_collides"] = fresh.xmiID in taken
        except Exception as e:  # noqa
            rec["error"] = f"{type(e).__name__}: {e}"
        obs["loads"].append(rec)
    # presentation variant written by the harness's own writer
    v = cfg["variant"]
    vdoc = J.present(doc, random.Random(v["seed"]), v["fs_form"], v["fs_order"], v["type_order"], v["member_order"])
    obs["variant"] = vdoc
    try:
        ts_arg, merge = cfg["load"]
        ts_in = build_ts(cassis, sc["tspec"], sc["da_feats"]) if ts_arg == "orig" else None
        vtext = J.emit(vdoc, pretty=not cfg["pretty"], ensure_ascii=not cfg["ascii"])
        vloaded = cassis.load_cas_from_json(vtext, typesystem=ts_in, merge_typesystem=merge)
        obs["variant_twice"] = sorted(i for i, n in objects_per_id(vloaded).items() if n > 1 and i is not None)
        obs["variant_canon"] = scen.canon(vloaded, "json")
    except Exception as e:  # noqa
        obs["variant_error"] = f"{type(e).__name__}: {e}"
    return obs


# ------------------------------------------------------------------------------------------------ oracle


def _diff(a, b):
    if a["sofas"] != b["sofas"]:
        for x, y in zip(a["sofas"], b["sofas"]):
            if x != y:
                return f"sofa {x} vs {y}"
        return f"sofas {a['sofas']} vs {b['sofas']}"
    ka, kb = {int(k) for k in a["fs"]}, {int(k) for k in b["fs"]}
    if ka != kb:
        return f"ids only before {sorted(ka - kb)} / only after {sorted(kb - ka)}"
    for k in a["fs"]:
        if a["fs"][k] != b["fs"][k]:
            return f"fs {k}: {a['fs'][k]} vs {b['fs'][k]}"
    return None


def needed_declarations(sc, canon):
    """(type -> supertype, own features) the document needs: types of its structures, closed under supertype, feature
    range and element type; from the scenario."""
    decl = {t["name"]: (t["super"], t["feats"]) for t in sc["tspec"]}
    if sc["da_feats"]:
        decl[DA] = (scen.ANNOTATION, sc["da_feats"])
    todo = [d["type"] for d in canon["fs"].values()]
    seen = set()
    while todo:
        n = todo.pop()
        if n in seen or n not in decl:
            continue
        seen.add(n)
        sup, feats = decl[n]
        todo.append(sup)
        # effective features: own and those of user ancestors (reached through sup)
        for f in feats:
            todo.append(f["range"])
            if f.get("elem"):
                todo.append(f["elem"])
    return {n: decl[n] for n in seen}


def oracle(cassis, sc, obs):
    cfg = sc["cfg"]
    want = obs["canon"]
    # the save itself only assigns missing ids
    if obs["before"] != obs["after_sofas"]:
        return "to_json changed sofa data or index membership of the in-memory CAS"
    if not obs["again_equal"]:
        return "to_json with other pretty_print/ensure_ascii/sink flags describes another JSON value"
    if not obs["ascii_ok"]:
        return "ensure_ascii=True produced non-ASCII bytes"
    # every structure is in the document exactly once: the sofas, and the structures the content of the CAS consists of
    ids = [i for i, _m in J.entries(obs["doc"])]
    twice = sorted({i for i in ids if ids.count(i) > 1}, key=str)
    if twice:
        return f"the document lists a structure more than once: %ID {twice}"
    want_ids = sorted([int(k) for k in want["fs"]] + [s_["id"] for s_ in want["sofas"]])
    if sorted(ids, key=str) != sorted(want_ids, key=str):
        return f"the document lists the ids {sorted(ids, key=str)}, the CAS consists of {want_ids}"
    need = needed_declarations(sc, want)
    for rec in obs["loads"]:
        tag = f"mode={cfg['mode']} typesystem={rec['ts']} merge_typesystem={rec['merge']}"
        if rec.get("twice"):
            return (f"sharing lost: the loaded CAS holds several objects under one id {rec['twice']} -- a structure the "
                    f"document lists once (a sofa byte array also held by another sofa / a view / a feature) was built twice ({tag})")
        if "error" in rec:
            return f"load_cas_from_json failed ({tag}): {rec['error']}"
        d = _diff(want, rec["canon"])
        if d:
            return f"loaded CAS differs ({tag}): {d}"
        d = _diff(want, rec["canon_after_resave"])
        if d:
            return f"re-serialising changed the loaded CAS ({tag}): {d}"
        if rec.get("fresh_id_collides"):
            return f"a structure added after loading got an id the document already uses ({tag})"
        if canon_doc(rec["resave"]) != canon_doc(obs["doc"]):
            return f"re-serialised JSON value differs ({tag}): {_jdiff(canon_doc(obs['doc']), canon_doc(rec['resave']))}"
        dump = rec["tsdump"]
        for n, (sup, feats) in need.items():
            if n not in dump:
                return f"loaded type system lacks type {n} ({tag})"
            if dump[n]["super"] != sup:
                return f"type {n}: supertype {dump[n]['super']} instead of {sup} ({tag})"
            for f in feats:
                got = dump[n]["feats"].get(f["name"])
                if got is None:
                    return f"type {n} lacks feature {f['name']} ({tag})"
                elem = f.get("elem")
                ok_elem = got[1] == elem or (f["range"] == scen.FS_ARRAY and elem is None and got[1] == scen.TOP)
                if got[0] != f["range"] or not ok_elem or bool(got[2]) != bool(f.get("multi")):
                    return (f"feature {n}:{f['name']} declared as range={got[0]} elem={got[1]} multi={got[2]}, "
                            f"original range={f['range']} elem={elem} multi={f.get('multi')} ({tag})")
    if obs.get("variant_twice"):
        return (f"sharing lost in presentation variant {cfg['variant']}: several objects under one id {obs['variant_twice']}")
    if "variant_error" in obs:
        return f"presentation variant {cfg['variant']} could not be loaded: {obs['variant_error']}"
    d = _diff(want, obs["variant_canon"])
    if d:
        return f"presentation variant {cfg['variant']} loads differently: {d}"
    return None


def _id_key(e):
    x = J.get(e, J.ID)
    return x[1] if x and x[0] == "int" else -1


def canon_doc(doc):
    """JSON value modulo member order; the order of the entries of %FEATURE_STRUCTURES is presentation too (sorted by id)."""
    c = J.canon(doc)
    return ("obj", [(k, ("arr", sorted(v[1], key=_id_key)) if k == J.FS and v[0] == "arr" else v)
                    for k, v in c[1]])


def _jdiff(a, b, path="$"):
    if a[0] != b[0]:
        return f"{path}: {a} vs {b}"
    if a[0] == "arr":
        if len(a[1]) != len(b[1]):
            return f"{path}: {len(a[1])} vs {len(b[1])} elements"
        for i, (x, y) in enumerate(zip(a[1], b[1])):
            d = _jdiff(x, y, f"{path}[{i}]")
            if d:
                return d
        return None
    if a[0] == "obj":
        ka, kb = [k for k, _ in a[1]], [k for k, _ in b[1]]
        if ka != kb:
            return f"{path}: members {sorted(set(ka) ^ set(kb))}"
        for (k, x), (_k, y) in zip(a[1], b[1]):
            d = _jdiff(x, y, f"{path}.{k}")
            if d:
                return d
        return None
    return None if a == b else f"{path}: {a} vs {b}"


# ------------------------------------------------------------------------------------------------ rendering

_FIRST = {"done": False}


def g_cas(sc):
    cspec = sc["cspec"]
    per_view = {i: [] for i in range(len(cspec["views"]))}
    for vi, l in cspec["members"]:
        per_view[vi].append(l)
    views = []
    sids, nums, nxt = id_plan(cspec)
    for i, v in enumerate(cspec["views"]):
        sofa = (f"mkSofa {gz(sids[i])} {gz(nums[i])} {gstr(v['name'])} {scen.g_text(v.get('text'))} {gopt(v.get('mime'), gstr)} "
                f"{gopt(v.get('uri'), gstr)} {gopt(v.get('array'), gn)}")
        views.append(f"mkView ({sofa}) {glist([gn(l) for l in per_view[i]])}")
    return f"mkCas {glist(views)} {scen.g_heap(cspec)} {gz(nxt)}"


def render(sc, obs):
    import cassis
    cfg = sc["cfg"]
    load = next((r for r in obs["loads"] if [r["ts"], r["merge"]] == cfg["load"]), None)
    if load is None or "canon" not in load:
        return None
    schema = schema2(cassis, sc["tspec"], sc["da_feats"])
    names = [t["name"] for t in sc["tspec"]] + ([DA] if sc["da_feats"] else [])
    builtin = "None"
    if not _FIRST["done"]:
        _FIRST["done"] = True
        bs = scen.schema_of(cassis, [])
        builtin = "(Some " + scen.g_schema(bs, list(scen.builtin_table(cassis).keys())) + ")"
    variant = "None"
    if cfg.get("coq_variant") and "variant_canon" in obs:
        variant = "(Some (" + J.gallina(obs["variant"]) + "))"
    mode = {"FULL": "MFull", "MINIMAL": "MMinimal", "NONE": "MNone"}[cfg["mode"]]
    once = "true" if not load.get("twice") and not obs.get("variant_twice") else "false"
    t = (f"mkCase {scen.g_schema(schema, names)} {builtin} {mode}\n ({g_cas(sc)})\n ({J.gallina(obs['doc'])})\n "
         f"({scen.g_ccas(obs['canon'])})\n ({scen.g_ccas(load['canon'])})\n {variant} {once}")
    return t.replace("%string", "")


def reset():
    _FIRST["done"] = False


# ------------------------------------------------------------------------------------------------ bookkeeping


def nontrivial(sc):
    objs = sc["cspec"]["objs"]
    refs = any(isinstance(v, dict) and ("ref" in v or "list" in v) for o in objs for v in o["slots"].values())
    return len(objs) >= 2 and refs


def shrink_candidates(sc):
    cs = sc["cspec"]
    if sc["da_feats"] and not any(o["type"] == DA for o in cs["objs"]):
        c = copy.deepcopy(sc)
        c["da_feats"] = []
        yield c
    referenced = set()
    for o in cs["objs"]:
        for v in o["slots"].values():
            if isinstance(v, dict):
                if "ref" in v:
                    referenced.add(v["ref"])
                for e in v.get("list", []) if "list" in v else []:
                    if isinstance(e, dict) and "ref" in e:
                        referenced.add(e["ref"])
    arrays = {v.get("array") for v in cs["views"]}
    for o in list(cs["objs"]):
        if o["o"] in referenced or o["o"] in arrays:
            continue
        c = copy.deepcopy(sc)
        c["cspec"]["objs"] = [x for x in c["cspec"]["objs"] if x["o"] != o["o"]]
        c["cspec"]["members"] = [m for m in c["cspec"]["members"] if m[1] != o["o"]]
        if c["cspec"]["objs"] and not ids_clash(c["cspec"]):   # (fewer adds: a late sofa may now take the id of a structure)
            yield c
    for o in cs["objs"]:
        for k in list(o["slots"]):
            if k in ("sofa", "begin", "end", "elements", "head", "tail"):
                continue
            c = copy.deepcopy(sc)
            for x in c["cspec"]["objs"]:
                if x["o"] == o["o"]:
                    del x["slots"][k]
            yield c
    for i, v in enumerate(cs["views"]):
        for k in ("num", "sid", "after"):
            if v.get(k):
                c = copy.deepcopy(sc)
                del c["cspec"]["views"][i][k]
                if not ids_clash(c["cspec"]):
                    yield c
    for i, v in enumerate(cs["views"]):
        if v.get("array") is not None or v.get("uri") is not None:
            c = copy.deepcopy(sc)
            c["cspec"]["views"][i]["array"] = None
            c["cspec"]["views"][i]["uri"] = None
            yield c


def signature(sc, msg):
    return {"what": (msg or "").split(":")[0].split("(")[0].strip()[:60]}


def distribution(scenarios, observations):
    modes, loads, sinks, variants = {}, {}, {}, {}
    feats = {"byte_array_sofa": 0, "uri_sofa": 0, "docann_extended": 0, "docann_instance": 0, "idless": 0, "multi_view": 0,
             "astral_text": 0, "fslist_elem_declared": 0, "fslist_elem_declared_and_set": 0, "fsarray_elem_declared": 0,
             "sofa_array_shared": 0, "sofa_array_indexed": 0, "sofa_array_referenced": 0, "sofa_array_fsarray_element": 0,
             "sofa_array_combined": 0, "sofa_array_special_idless": 0, "sofa_array_special_with_id": 0,
             "view_created_late": 0, "sofa_id_given": 0, "sofa_num_given": 0, "sofa_id_differs_from_num": 0}
    for sc in scenarios:
        cfg = sc["cfg"]
        modes[cfg["mode"]] = modes.get(cfg["mode"], 0) + 1
        k = f"{cfg['load'][0]}/{cfg['load'][1]}"
        loads[k] = loads.get(k, 0) + 1
        s = f"{cfg['sink']}/pretty={cfg['pretty']}/ascii={cfg['ascii']}"
        sinks[s] = sinks.get(s, 0) + 1
        vk = f"{cfg['variant']['fs_form']}/{cfg['variant']['fs_order']}"
        variants[vk] = variants.get(vk, 0) + 1
        vs = sc["cspec"]["views"]
        feats["byte_array_sofa"] += any(v.get("array") for v in vs)
        feats["uri_sofa"] += any(v.get("uri") is not None for v in vs)
        feats["docann_extended"] += bool(sc["da_feats"])
        feats["docann_instance"] += any(o["type"] == DA for o in sc["cspec"]["objs"])
        feats["idless"] += any(o["id"] is None for o in sc["cspec"]["objs"])
        feats["multi_view"] += len(vs) > 1
        le = {scen.pyname(f["name"]) for t in sc["tspec"] for f in t["feats"] if f["range"] == scen.FS_LIST and f.get("elem")}
        feats["fslist_elem_declared"] += bool(le)
        feats["fslist_elem_declared_and_set"] += any(k in le for o in sc["cspec"]["objs"] for k in o["slots"])
        feats["fsarray_elem_declared"] += any(f["range"] == scen.FS_ARRAY and f.get("elem") for t in sc["tspec"] for f in t["feats"])
        feats["astral_text"] += any(any(c > 0xFFFF for c in (v.get("text") or [])) for v in vs)
        kn = cfg.get("array_knobs") or []
        feats["sofa_array_shared"] += "shared" in kn
        feats["sofa_array_indexed"] += "indexed" in kn
        feats["sofa_array_referenced"] += "referenced" in kn
        feats["sofa_array_fsarray_element"] += "element" in kn
        feats["sofa_array_combined"] += len({"shared", "indexed", "referenced", "element"} & set(kn)) >= 2
        feats["sofa_array_special_idless"] += "idless" in kn
        feats["sofa_array_special_with_id"] += "with_id" in kn
        sk = cfg.get("sofa_knobs") or []
        feats["view_created_late"] += "late" in sk
        feats["sofa_id_given"] += "given" in sk
        feats["sofa_num_given"] += "num_given" in sk
        feats["sofa_id_differs_from_num"] += "id_differs_from_num" in sk
    n_loads = sum(len(o["loads"]) for o in observations if o)
    return {"cases": len(scenarios), "modes": modes, "load_arguments": loads, "sink_flags": sinks, "variants": variants,
            "features": feats, "loads_executed": n_loads,
            "objects_max": max([len(s["cspec"]["objs"]) for s in scenarios] or [0])}


def extra_checks(ctx):
    """The JSON halves of C04 / C05 are exported from coq/PropsJson.v (spliced into Props/C04.v / Props/C05.v by the
    integrator); their Print Assumptions are checked here so that they are re-checked on every run of this property."""
    from harness import core
    n, closed, problems, _out = core.check_props("PropsJson.v")
    return [(f"PropsJson.v: {closed}/{n} theorems of the JSON halves of C04/C05 closed under the global context",
             not problems and n == closed and n > 0, "; ".join(problems) or "ok", None)]


MANIFEST = {
    "level_text": "Machine-checked proof (Coq 8.16) about hand-written models of the JSON-CAS format (declarative reading "
                  "denote_json, doc_ok_json, embedded type declarations), of the cassis writer (views loop, _find_all_fs "
                  "with collections included, per-kind encoders, transitive_closure for MINIMAL) and of the reader at the "
                  "level of canonical content; the models are tied to /repo on every run by evaluating them inside Coq on "
                  "the documents the implementation wrote and on the CASes it loaded, for every mode / type system "
                  "argument / flag / sink combination.",
    "level_note": "Trusted: Coq kernel + vm_compute; the models; stdlib json as the text<->abstract JSON layer; UTF-8 and "
                  "base64 as the premise lex_ok; scen.py builders and identity-based observation. See TRUSTED.",
    "technique": "Coq proof over executable Gallina models + in-Coq behavioural correspondence + direct oracle",
    "design_ref": "DESIGN.md section 5, C02",
}
