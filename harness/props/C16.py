"""C16 — converting between XMI and JSON preserves the CAS."""
import copy
import random

from harness import jsonabs as J
from harness import scen, xmlabs
from harness.props import C02 as c02
from harness.props import xmicommon as xc

ID = "C16"
COQ_TARGETS = ["JsonDoc.vo", "Json.vo", "JsonProofs.vo", "JsonProofs2.vo", "JsonLoadProofs.vo", "JsonLex.vo", "JsonWf.vo", "JsonDocOk.vo", "CorrC02.vo", "Convert.vo", "ConvertWf.vo",
               "ConvertReach.vo", "ConvertInline.vo", "ConvertProofs.vo", "CorrC16.vo", "Props/C16.vo"]
PROPS_FILE = "Props/C16.v"
CORR_IMPORTS = "Base Heap Schema Canon Lex JsonDoc Json JsonWf XmiDoc Convert ConvertWf CorrC16"
OPEN_SCOPES = ["string_scope", "list_scope", "Z_scope"]
SHARD_BYTES = 180_000
CASES_PER_SHARD = 12
CASE_TIMEOUT_S = 30
ENTRY = "load_cas_from_xmi / Cas.to_json / load_cas_from_json / Cas.to_xmi composed"
RULE = (
    "Every case: a random type system and well-formed CAS of the shared generators (scen.gen_tspec / gen_cspec: 1-3 "
    "views with text sofas incl. astral text, every primitive / array / list kind, inline and shared collections, null "
    "elements, cycles, referenced-only structures, reserved feature names, special floats; extended DocumentAnnotation in "
    "half of the cases; in about a third of the cases a view without annotations holds its data in a byte array, which is "
    "then -- in combinations -- shared by a second sofa, indexed in a view, referenced by a TOP- / ByteArray-ranged feature "
    "or an FSArray element), written once by the implementation and then sent through both chains XMI -> CAS -> JSON -> CAS "
    "and JSON -> CAS -> XMI -> CAS; a third chain XMI -> CAS -> JSON -> CAS starts from an XMI document that does not mention "
    "_InitialView (the same content with the former initial view as a named view; the Sofa and View elements of the unused "
    "initial view dropped, as UIMA writes it). The JSON type system mode (FULL / MINIMAL / NONE) and the type system source (the "
    "original one, or only what the JSON document embeds — for the final XMI load the type system of the CAS loaded from "
    "JSON) are enumerated round-robin. A case is non-trivial when the CAS has >= 2 feature structures and an inlined "
    "collection (a collection feature without multipleReferencesAllowed that is set)."
)
TRUSTED = [
    "Coq 8.16.1 kernel and vm_compute; Print Assumptions of every theorem in Props/C16.v: closed under the global context",
    "hand-written models: coq/JsonDoc.v + Json.v (JSON side, C02), coq/XmiDoc.v + Xmi.v (XMI side, owned by C01/C04/C05), "
    "coq/Convert.v (inline_of: the XMI view of canonical content computed from the JSON view)",
    "the relation between the two canonical views of one CAS (inline_outline) is a theorem (C16_inline_outline, premise "
    "ConvertWf.wf_convb: a boolean on schema and CAS, evaluated on the scenario CAS of every case); it is additionally "
    "evaluated inside Coq on the observed views of all four CASes of every case and on the model's own two views of the "
    "scenario CAS, which are compared with the views observed of the CAS loaded from JSON",
    "lexical layer: stdlib json / xml.etree as text <-> abstract document (harness/jsonabs.py, harness/xmlabs.py); float "
    "literals of XMI documents through the scenario's lexeme table (tested by the oracle: float_contract)",
    "harness/scen.py builders and identity-based canonical observation in both views",
]
ASSUMPTIONS = [
    "text sofas (C16's quantifier) and, beyond it, sofas whose data is a uima.cas.ByteArray -- private, shared by two sofas, "
    "indexed, referenced; XML-legal strings",
    "compared in the XMI view: a collection held by a feature without multipleReferencesAllowed has no id in XMI, and an "
    "empty string inside a StringArray / StringList is null in XMI (both views are compared after this normalisation)",
    "the premises of C02 (ASSUMPTIONS there) and of C01 for the two legs",
]

CONFIGS = [(m, src) for m in ("FULL", "MINIMAL") for src in ("orig", "embedded")] + [("NONE", "orig")]


def generate(rng, tier):
    n = {"quick": 110, "thorough": 700, "search": 1500}[tier]
    for k in range(n):
        yield make_scenario(rng.randrange(1 << 30), k, big=(tier != "quick" and k % 5 == 0))


def make_scenario(sub, k, big=False):
    import cassis
    r = random.Random(sub)
    mode, src = CONFIGS[k % len(CONFIGS)]
    tspec = scen.gen_tspec(r, n_types=r.randint(2, 8 if big else 6), max_feats=r.randint(1, 5))
    if r.random() < 0.4:  # separately stored (shared) string collections, often empty: the formats differ most there
        t0 = tspec[0]
        if not any(f["name"] in ("sa", "sl") for t in tspec for f in t["feats"]):
            t0["feats"].append({"name": "sa", "range": scen.T + "StringArray", "elem": None, "multi": True})
            t0["feats"].append({"name": "sl", "range": scen.T + "StringList", "elem": None, "multi": r.choice([True, None])})
    cspec = scen.gen_cspec(r, cassis, tspec, n_objs=(1, 12 if big else 6), all_ids=True)
    for v in cspec["views"]:
        v.setdefault("uri", None)
        v.setdefault("array", None)
    da_feats = []
    if r.random() < 0.5:
        da_feats = [{"name": "docId", "range": "uima.cas.String", "elem": None, "multi": None}]
        vi = r.randrange(len(cspec["views"]))
        lab = max(o["o"] for o in cspec["objs"]) + 1
        used = {o["id"] for o in cspec["objs"]} | {1, 2, 3}
        cspec["objs"].append({"o": lab, "type": c02.DA, "id": max(used) + 1,
                              "slots": {"sofa": {"sofa": cspec["views"][vi]["name"]}, "begin": {"i": 0},
                                        "end": {"i": len(cspec["views"][vi]["text"])}, "language": {"s": "en"},
                                        "docId": {"s": "d-1"}}})
        cspec["members"].append([vi, lab])
    knobs = sofa_arrays(random.Random(sub ^ 0xA77A), cassis, tspec, da_feats, cspec)
    return {"tspec": tspec, "da_feats": da_feats, "cspec": cspec,
            "cfg": {"mode": mode, "src": src, "pretty": bool(k % 2), "load": ["orig", True], "ascii": False, "sink": "str",
                    "array_knobs": knobs}}


def sofa_arrays(r, cassis, tspec, da_feats, cspec):
    """Beyond the text sofas of the property's quantifier (after /repo d1bc860, d94ad6a): in about a third of the cases a view
    that carries no annotation holds its data in a byte array (id-less or with an id), and C02.share_sofa_arrays then lets the
    array be shared by a second sofa, indexed in a view, referenced by a feature / an FSArray element, in combinations.  A
    random stream of its own: the rest of the scenario is what it was."""
    if r.random() >= 0.35:
        return []
    objs, views = cspec["objs"], cspec["views"]
    ann_views = {o["slots"]["sofa"]["sofa"] for o in objs if o["slots"].get("sofa")}
    free = [v for v in views if v["name"] not in ann_views]
    if not free:
        return []
    used = {o["id"] for o in objs if o["id"] is not None} | set(range(1, len(views) + 1))
    v = r.choice(free)
    lab = max(o["o"] for o in objs) + 1
    aid = r.choice([None, max(used) + r.randint(1, 3)])
    objs.append({"o": lab, "type": "uima.cas.ByteArray", "id": aid,
                 "slots": {"elements": {"list": [{"i": r.choice([0, 255, 65, r.randint(0, 255)])} for _ in range(r.choice([0, 1, 2, 5]))]}}})
    v["array"] = lab
    v["text"] = None
    return ["array"] + c02.share_sofa_arrays(r, cassis, tspec, da_feats, cspec)   # (ends with c02.keep_ids_apart)


# ------------------------------------------------------------------------------------------------ implementation driver


def _mode(cassis, name):
    from cassis.typesystem import TypeSystemMode
    return getattr(TypeSystemMode, name)


def norm(cc):
    """XMI cannot tell "" from null inside string arrays and lists."""
    def nv(v):
        if isinstance(v, list) and v and v[0] == "coll" and v[1] in (scen.T + "StringArray", scen.T + "StringList"):
            return ["coll", v[1], [None if e == ["s", ""] else e for e in (v[2] or [])]]
        return v

    out = {"sofas": cc["sofas"], "fs": {}}
    for i, d in cc["fs"].items():
        feats = {k: nv(v) for k, v in d["feats"].items()}
        if d["type"] == scen.T + "StringArray" and feats.get("elements") and feats["elements"][0] == "list":
            feats["elements"] = ["list", [None if e == ["s", ""] else e for e in feats["elements"][1]]]
        out["fs"][i] = {"type": d["type"], "feats": feats}
    return out


def no_initial_variant(sc):
    """The same content in a CAS whose initial view is unused: a fresh empty _InitialView in front, the former one becomes
    the named view `view0`.  Sofas then take the ids 1..n+1; a structure that had the id n+1 gets a fresh one."""
    c = copy.deepcopy(sc)
    cs = c["cspec"]
    n = len(cs["views"])
    old = cs["views"]
    cs["views"] = [{"name": "_InitialView", "text": None, "mime": None, "uri": None, "array": None}] + \
                  [dict(v, name=("view0" if i == 0 else v["name"])) for i, v in enumerate(old)]
    cs["members"] = [[vi + 1, lab] for vi, lab in cs["members"]]
    ids = [o["id"] for o in cs["objs"] if o.get("id") is not None]
    for o in cs["objs"]:
        if o.get("id") == n + 1:
            o["id"] = max(ids + [n + 1]) + 1
        for k, v in o["slots"].items():
            if isinstance(v, dict) and v.get("sofa") == "_InitialView":
                o["slots"][k] = {"sofa": "view0"}
    return c


def drop_initial(xmi_text):
    """The document without the Sofa and View elements of the initial view, as UIMA writes a CAS that only uses named
    views; None when the initial view is in use (text, mime type, URI, array or members)."""
    import xml.etree.ElementTree as ET
    root = ET.fromstring(xmi_text.encode("utf-8"))
    cas_ns = "{" + xmlabs.NS_CAS + "}"
    xmi_id = "{http://www.omg.org/XMI}id"
    sofa = next((e for e in root if e.tag == cas_ns + "Sofa" and e.get("sofaID") == "_InitialView"), None)
    if sofa is None or any(sofa.get(a) is not None for a in ("sofaString", "mimeType", "sofaURI", "sofaArray")):
        return None
    views = [e for e in root if e.tag == cas_ns + "View" and e.get("sofa") == sofa.get(xmi_id)]
    if any((e.get("members") or "").strip() for e in views):
        return None
    for e in [sofa] + views:
        root.remove(e)
    return ET.tostring(root, encoding="unicode")


def _twice(cas):
    """ids under which the CAS holds more than one Python object (identity; C02.objects_per_id)"""
    return sorted(i for i, n in c02.objects_per_id(cas).items() if n > 1 and i is not None)


def run_impl(cassis, sc):
    cfg = sc["cfg"]
    mode = _mode(cassis, cfg["mode"])
    orig = lambda: c02.build_ts(cassis, sc["tspec"], sc["da_feats"])  # noqa
    _ts, cas0, _v, _o = c02.build(cassis, sc)
    obs = {}
    # chain A: XMI -> CAS -> JSON -> CAS
    x0 = cas0.to_xmi(pretty_print=cfg["pretty"])
    obs["a_xmi"] = xmlabs.parse(x0)
    a1 = cassis.load_cas_from_xmi(x0, typesystem=orig())
    obs["a1_xmi_before"] = scen.canon(a1, "xmi")
    j = a1.to_json(pretty_print=cfg["pretty"], type_system_mode=mode)
    obs["a_doc"] = J.parse(j)
    obs["a1_json"] = scen.canon(a1, "json")
    obs["a1_xmi"] = scen.canon(a1, "xmi")
    a2 = cassis.load_cas_from_json(j, typesystem=None if cfg["src"] == "embedded" else orig())
    obs["twice"] = {"a2": _twice(a2)}
    obs["a2_xmi"] = scen.canon(a2, "xmi")
    obs["a2_json"] = scen.canon(a2, "json")
    # chain B: JSON -> CAS -> XMI -> CAS
    _ts, cas0b, _v, _o = c02.build(cassis, sc)
    j0 = cas0b.to_json(pretty_print=cfg["pretty"], type_system_mode=mode)
    obs["b_doc"] = J.parse(j0)
    b1 = cassis.load_cas_from_json(j0, typesystem=None if cfg["src"] == "embedded" else orig())
    obs["twice"]["b1"] = _twice(b1)
    obs["b1_json"] = scen.canon(b1, "json")
    obs["b1_xmi_before"] = scen.canon(b1, "xmi")
    x = b1.to_xmi(pretty_print=cfg["pretty"])
    obs["b_xmi"] = xmlabs.parse(x)
    obs["b1_xmi"] = scen.canon(b1, "xmi")
    b2 = cassis.load_cas_from_xmi(x, typesystem=b1.typesystem if cfg["src"] == "embedded" else orig())
    obs["b2_xmi"] = scen.canon(b2, "xmi")
    b2.to_json(type_system_mode=mode)  # gives the inlined collections of the XMI-loaded CAS their ids
    obs["b2_json"] = scen.canon(b2, "json")
    obs["b2_xmi_after"] = scen.canon(b2, "xmi")
    # chain N: XMI -> CAS -> JSON -> CAS from a document that does not mention _InitialView (only named views): the reader
    # keeps the pre-created initial view under the next free xmi:id / sofaNum, and the id generators start behind it
    _ts, casn, _v, _o = c02.build(cassis, no_initial_variant(sc))
    xn = drop_initial(casn.to_xmi(pretty_print=cfg["pretty"]))
    if xn is not None:
        n1 = cassis.load_cas_from_xmi(xn, typesystem=orig())
        obs["n1_xmi_before"] = scen.canon(n1, "xmi")
        jn = n1.to_json(pretty_print=cfg["pretty"], type_system_mode=mode)
        obs["n_doc"] = J.parse(jn)
        obs["n1_json"] = scen.canon(n1, "json")
        obs["n1_xmi"] = scen.canon(n1, "xmi")
        n2 = cassis.load_cas_from_json(jn, typesystem=None if cfg["src"] == "embedded" else orig())
        obs["twice"]["n2"] = _twice(n2)
        obs["n2_xmi"] = scen.canon(n2, "xmi")
        obs["n2_json"] = scen.canon(n2, "json")
    return obs


def oracle(cassis, sc, obs):
    m = xc.float_contract(sc["cspec"])
    if m:
        return "harness premise: " + m
    tag = f"mode={sc['cfg']['mode']} type system={sc['cfg']['src']}"
    for which, ids in (obs.get("twice") or {}).items():
        if ids:
            return (f"sharing lost: the CAS loaded from JSON ({which}) holds several objects under one id {ids} -- reference "
                    f"structure not preserved ({tag})")
    d = c02._diff(obs["a1_xmi_before"], obs["a1_xmi"])
    if d:
        return f"to_json changed the CAS loaded from XMI ({tag}): {d}"
    d = c02._diff(norm(obs["a1_xmi"]), norm(obs["a2_xmi"]))
    if d:
        return f"XMI -> CAS -> JSON -> CAS: final CAS differs from the one loaded first ({tag}): {d}"
    d = c02._diff(obs["a1_json"], obs["a2_json"])
    if d:
        return f"XMI -> CAS -> JSON -> CAS: JSON view differs ({tag}): {d}"
    d = c02._diff(obs["b1_xmi_before"], obs["b1_xmi"])
    if d:
        return f"to_xmi changed the CAS loaded from JSON ({tag}): {d}"
    d = c02._diff(norm(obs["b1_xmi"]), norm(obs["b2_xmi"]))
    if d:
        return f"JSON -> CAS -> XMI -> CAS: final CAS differs from the one loaded first ({tag}): {d}"
    d = c02._diff(obs["b2_xmi"], obs["b2_xmi_after"])
    if d:
        return f"to_json changed the CAS loaded from XMI at the end of chain B ({tag}): {d}"
    if "n_doc" in obs:
        d = c02._diff(obs["n1_xmi_before"], obs["n1_xmi"])
        if d:
            return f"to_json changed the CAS loaded from an XMI document without _InitialView ({tag}): {d}"
        d = c02._diff(norm(obs["n1_xmi"]), norm(obs["n2_xmi"]))
        if d:
            return f"XMI without _InitialView -> CAS -> JSON -> CAS: final CAS differs from the one loaded first ({tag}): {d}"
        d = c02._diff(obs["n1_json"], obs["n2_json"])
        if d:
            return f"XMI without _InitialView -> CAS -> JSON -> CAS: JSON view differs ({tag}): {d}"
    return None


# ------------------------------------------------------------------------------------------------ rendering


def render(sc, obs):
    import cassis
    schema = c02.schema2(cassis, sc["tspec"], sc["da_feats"])
    names = [t["name"] for t in sc["tspec"]] + ([c02.DA] if sc["da_feats"] else [])
    g = scen.g_ccas
    t = (f"mkCase {scen.g_schema(schema, names)} {xc.g_ftab(sc['cspec'])}\n ({c02.g_cas(sc)})\n ({xmlabs.g_xdoc(obs['a_xmi'])})\n ({g(obs['a1_json'])}) "
         f"({g(obs['a1_xmi'])})\n ({J.gallina(obs['a_doc'])})\n ({g(obs['a2_json'])}) ({g(obs['a2_xmi'])})\n "
         f"({J.gallina(obs['b_doc'])})\n ({g(obs['b1_json'])}) ({g(obs['b1_xmi'])})\n ({xmlabs.g_xdoc(obs['b_xmi'])})\n "
         f"({g(obs['b2_json'])}) ({g(obs['b2_xmi'])})\n ")
    if "n_doc" in obs:
        t += (f"(Some (mkChainN ({J.gallina(obs['n_doc'])})\n ({g(obs['n1_json'])}) ({g(obs['n1_xmi'])}) "
              f"({g(obs['n2_json'])}) ({g(obs['n2_xmi'])})))")
    else:
        t += "None"
    return t.replace("%string", "")


def nontrivial(sc):
    import cassis
    schema = c02.schema2(cassis, sc["tspec"], sc["da_feats"])
    objs = sc["cspec"]["objs"]
    inl = False
    for o in objs:
        for f in schema.get(o["type"], {"feats": []})["feats"]:
            if not f[4] and (f[2] in scen.ARRS or f[2] in scen.LISTS or f[2] in (scen.FS_ARRAY, scen.FS_LIST)) and o["slots"].get(f[0]):
                inl = True
    return len(objs) >= 2 and inl


def shrink_candidates(sc):
    for c in c02.shrink_candidates(sc):
        yield c
    if sc["cfg"]["pretty"]:
        c = copy.deepcopy(sc)
        c["cfg"]["pretty"] = False
        yield c


def signature(sc, msg):
    return {"what": (msg or "").split(":")[0].split("(")[0].strip()[:60]}


def distribution(scenarios, observations):
    cfgs = {}
    for sc in scenarios:
        k = f"{sc['cfg']['mode']}/{sc['cfg']['src']}"
        cfgs[k] = cfgs.get(k, 0) + 1
    return {"cases": len(scenarios), "configurations": cfgs,
            "multi_view": sum(1 for s in scenarios if len(s["cspec"]["views"]) > 1),
            "astral_text": sum(1 for s in scenarios if any(any(c > 0xFFFF for c in (v.get("text") or [])) for v in s["cspec"]["views"])),
            "docann_extended": sum(1 for s in scenarios if s["da_feats"]),
            "sofa_byte_array": sum(1 for s in scenarios if "array" in (s["cfg"].get("array_knobs") or [])),
            "sofa_byte_array_shared_indexed_referenced": sum(1 for s in scenarios if {"shared", "indexed", "referenced", "element"}
                                                             & set(s["cfg"].get("array_knobs") or [])),
            "objects_max": max([len(s["cspec"]["objs"]) for s in scenarios] or [0])}


MANIFEST = {
    "level_text": "Machine-checked proof (Coq 8.16): the conversion statements are compositions, through canonical content, "
                  "of the codec theorems of both formats (every written document denotes the canonical content of the CAS; "
                  "C02 / C01-C04) with the relation between the two canonical views (inline_of); the models are tied to "
                  "/repo on every run by evaluating them inside Coq on the documents and CASes of both chains as the "
                  "implementation ran them.",
    "level_note": "inline_outline (the JSON view of a well-formed CAS determines its XMI view) and both reader = denotation "
                  "agreements are theorems; the XMI reader leg is imported from C01 (C01_xmi_roundtrip in the exists form), "
                  "so the _total variants carry no hypothesis about a reader or a document. Premises left are booleans on the "
                  "input CAS: wf_convb, typed_jsonb, wf_rt_totalb (counted per case), 0 < next id. Chain A is stated over the CAS "
                  "after the JSON save (that saving leaves canon_xmi unchanged is checked per case by the oracle).",
    "technique": "Coq proof over executable Gallina models + in-Coq behavioural correspondence + direct oracle",
    "design_ref": "DESIGN.md section 5, C16",
}
