"""C05 (XMI half) — loading depends on what a document says, not on how it is laid out.

A scenario names a base document and one variant of it:
  src  {"kind": "scen", "tspec", "cspec"}     cassis' own to_xmi output for a shared scen.py scenario, parsed by xmlabs
       {"kind": "fixture", "xmi", "ts"}       a repository fixture /repo/tests/test_files/xmi/<xmi> with its type system
       {"kind": "hand", "tspec", "doc"}       an abstract document written by hand (Java float literals, sofa URI / byte array)
  var  presentation knobs of the deliberately dumb writer harness/xmlabs.py write (element order incl. sofa / view anywhere
       and forward references, fresh prefix names, shuffled attributes, pretty / compact, empty views omitted, <a/> versus
       <a></a>) and content rewrites the format allows (Java-style float literals, null references as id 0 / absent,
       an empty view written as a View element without a members attribute / with a blank one).
  src["foreign"] + sc["lenient"]   the document of a writer with a richer type system: elements of types the reader's type
       system does not define (own attributes, nested child elements, optionally listed as view members) are added to
       the base document; such a document is loaded with lenient=True, base and variant alike.  What it says is what
       the document without those elements says, wherever they stand.
The bytes of the variant are loaded with load_cas_from_xmi; the observation is scen.canon of the result (own traversal).
In Coq the observation is compared with the model reader (XmiLoad.load_xmi + canon_loaded) and with the declarative
denotation XmiDoc.denote_xmi of the VARIANT document; the oracle compares it with the observation for the base document.
"""
import json
import math
import os
import random

from harness import scen, xmlabs
from harness.gallina import glist, gstr

ID = "C05"
COQ_TARGETS = ["XmiLoad.vo", "XmiLoadProofs.vo", "XmiLoadProofs2.vo", "XmiLoadProofs3.vo", "XmiLoadProofs4.vo", "CorrC05.vo",
               "JsonDoc.vo", "Json.vo", "JsonProofs.vo", "JsonProofs2.vo", "JsonLoadProofs.vo", "JsonLex.vo", "PropsJson.vo",
               "JsonViewOmit.vo", "JsonViewOmitProofs.vo",
               "Props/C05.vo"]
PROPS_FILE = "Props/C05.v"
CORR_IMPORTS = "Base Heap Schema Canon XmiDoc XmiLoad CorrC05"
CASE_TYPE = "lcase"                  # a CorrC05.case + the value of lenient= (CorrC17 keeps using the plain case)
CHECK_FN = "check_lcase"
PREMISES_FN = "premises_lcase"
ENTRY = "cassis.xmi.load_cas_from_xmi / CasXmiDeserializer.deserialize"
CASES_PER_SHARD = 40
SHARD_BYTES = 160_000
CASE_TIMEOUT_S = 30
RULE = (
    "base documents: cassis' to_xmi output for seeded scen.py scenarios (awkward type systems: no-namespace types, "
    "colliding package suffixes, features self/type/begin/end, String subtypes; 1-3 views with ASCII/BMP/astral/empty "
    "text; every primitive, array and list kind inline and shared; null elements; indexed and referenced-only FS), the "
    "14 paired repository fixtures, and hand-written documents (Java float literals 1.0E10 1.0E-5 NaN Infinity "
    "-Infinity, a sofa with sofaURI, a sofa whose sofaArray names a ByteArray element, no _InitialView sofa); per base "
    "document the identity variant and 2-4 (quick) / 6-8 (thorough) variants drawn from: random element permutation, "
    "reversal, sofas and views first or last, fresh prefixes, shuffled attributes, pretty, empty views omitted, "
    "open-close tags, Java float spellings, null references as id 0 or absent, empty views written as a View element "
    "without a members attribute or with a blank one (also for sofas that had no View element). Lenient family: every "
    "fourth generated scenario and two hand-written documents once more with 1-3 elements of undefined types added "
    "(random attributes, 0-3 nested child elements named like string-collection features of the known types, "
    "optionally listed as view members, xmi:id sometimes absent or empty), loaded with lenient=True in base order "
    "(foreign elements last) and in 2-3 permutations. Non-trivial: the variant changes the "
    "element order or the content spelling of a document with at least one reference or collection feature."
)
TRUSTED = [
    "Coq 8.16.1 kernel and vm_compute; theorems in Props/C05.v closed under the global context except the Section "
    "parameter parse_flt (float(str)), which the cases instantiate with the table of literals seen",
    "hand-written models coq/XmiLoad.v (reader) and coq/XmiDoc.v (denotation, by b-xmiw)",
    "harness/xmlabs.py (xml.etree only) for bytes <-> abstract documents; lxml namespace resolution, unescaping and "
    "iterparse event order are below the model",
    "Python float(str) on the literals of a case (table rendered into the case); int(str) restricted to plain decimals",
    "scen.schema_of for scenario type systems; for fixture type systems the schema is read off the loaded TypeSystem "
    "(supertype chain and all_features), i.e. C10/C11/C12 are trusted there",
]
ASSUMPTIONS = [
    "user features are not called sofa, xmiID, elements, head or tail (DESIGN section 6: structural names; Cas.add sets any "
    "attribute called sofa)",
    "premises of C05_load_xmi_total (reader_okb0 and total_okb, counted per case): no attribute on a Sofa or feature "
    "structure element that the constructors do not know, every element of a subtype of AnnotationBase carries a sofa "
    "attribute naming a sofa, the cas:NULL element is present; and of C05_load_xmi_is_denotation_general: closed document (doc_ok_xmi), "
    "distinct view names, elements of defined types named by the UIMA rule, child elements only under string "
    "array / list features, annotations members of the view of their own sofa only; an _InitialView sofa is NOT required "
    "(without one the pre-created view gets the next free xmi:id and sofaNum)",
    "feature structures not reachable from any view member are compared with the model only through what references them "
    "(scen.canon observes from the view members)",
    "lenient cases: premises of C05_load_lenient_total (the document without the elements of undefined types satisfies the "
    "premises above; the xmi:id of a skipped element is absent, empty or a number; no kept element refers to a skipped one; "
    "ids of skipped elements are not ids of kept ones)",
]

FIX = os.path.join(os.environ.get("VERIF_REPO", "/repo"), "tests", "test_files")
FIXTURES = [
    ("small_cas.xmi", "small_typesystem.xml"),
    ("cas_with_inheritance.xmi", "typesystem_with_inheritance.xml"),
    ("cas_with_collections.xmi", "typesystem_with_collections.xml"),
    ("cas_with_references.xmi", "webanno_types.xml"),
    ("cas_with_nonindexed_fs.xmi", "important_dkpro_types.xml"),
    ("cas_with_empty_array_reference.xmi", "important_dkpro_types.xml"),
    ("cas_with_reserved_names.xmi", "typesystem_with_reserved_names.xml"),
    ("cas_with_two_sofas.xmi", "small_typesystem.xml"),
    ("cas_with_smileys.xmi", "important_dkpro_types.xml"),
    ("cas_with_floating_point_special_values.xmi", "typesystem_with_floating_points.xml"),
    ("cas_has_fs_with_no_namespace.xmi", "typesystem_has_types_with_no_namespace.xml"),
    ("cas_with_multiple_references_allowed_string_array.xmi", "typesystem_with_multiple_references_allowed.xml"),
    ("cas_with_list_features.xmi", "typesystem_with_list_features.xml"),
    ("cas_with_array_features.xmi", "typesystem_with_array_features.xml"),
    ("empty_cas.xmi", None),
]
T = scen.T
FLOAT_PRIMS = (T + "Float", T + "Double")
FLOAT_COLLS = (T + "FloatArray", T + "DoubleArray", T + "FloatList")
COLL_NAMES = set(scen.ARRS) | set(scen.LISTS) | {scen.FS_ARRAY, scen.FS_LIST}
NS_XMI, NS_CAS = xmlabs.NS_XMI, xmlabs.NS_CAS
_CACHE = {}


# ------------------------------------------------------------------------------------------------ type systems / schemas


def schema_of_ts(ts):
    """name -> {"anc", "feats"} read off a loaded TypeSystem (fixtures only)."""
    out = {}
    for t in ts.get_types(built_in=True):
        anc, cur = [], t
        while cur is not None:
            anc.append(cur.name)
            cur = cur.supertype
        out[t.name] = {"anc": anc, "feats": [
            (f.name, f.name[:-1] if f._has_reserved_name else f.name, f.rangeType.name,
             f.elementType.name if f.elementType is not None else None, bool(f.multipleReferencesAllowed))
            for f in t.all_features]}
    return out


def fixture_ts(cassis, name):
    key = ("ts", name, id(cassis))
    if key not in _CACHE:
        if name is None:
            ts = cassis.TypeSystem()
        else:
            with open(os.path.join(FIX, "typesystems", name), "rb") as f:
                ts = cassis.load_typesystem(f)
        _CACHE[key] = (ts, schema_of_ts(ts))
    return _CACHE[key]


def type_of_elem(e):
    """UIMA rule, independent of cassis: http:///a/b.ecore + C -> a.b.C; uima.noNamespace -> C."""
    ns = e["ns"]
    if not (ns.startswith("http:///") and ns.endswith(".ecore")):
        return None
    pkg = ns[len("http:///"):-len(".ecore")].replace("/", ".")
    return e["tag"] if pkg == "uima.noNamespace" else pkg + "." + e["tag"]


def prim_of(schema, rng):
    for a in [rng] + schema.get(rng, {"anc": []})["anc"]:
        if a in scen.PRIMS:
            return a
    return None


def feat_kind(schema, fd):
    _pn, _xn, rng, _el, multi = fd
    p = prim_of(schema, rng)
    if p:
        return "flt" if p in FLOAT_PRIMS else "prim"
    if multi or rng not in COLL_NAMES:
        return "ref"
    if rng in FLOAT_COLLS:
        return "fltcoll"
    return "coll"


def used_names(schema, doc):
    todo = [type_of_elem(e) for e in doc["elems"] if xmlabs.kind(e) == "FS"]
    todo += [T + "Sofa", scen.ANNOTATION, T + "AnnotationBase", T + "TOP", T + "NULL", T + "ByteArray"]
    seen = []
    while todo:
        n = todo.pop()
        if n is None or n in seen or n not in schema:
            continue
        seen.append(n)
        todo.extend(schema[n]["anc"])
        for f in schema[n]["feats"]:
            todo.append(f[2])
            if f[3]:
                todo.append(f[3])
    return sorted(seen)


# ------------------------------------------------------------------------------------------------ base documents


FOREIGN_NS = ["http:///foreign/pkg.ecore", "http:///other.ecore", "http:///uima/noNamespace.ecore", "http:///uima/tcas.ecore"]
FOREIGN_TAGS = ["Unknown", "Ext", "Zq9", "Note"]


def gen_foreign(r, schema, doc, n):
    """n elements of types the schema does not define, for the document doc: [{"elem", "view": sofa id | None}]."""
    ids = []
    for e in doc["elems"]:
        try:
            ids.append(int(xmlabs.attr(e, "xmi:id", "")))
        except ValueError:
            pass
    sofa_ids = [xmlabs.attr(e, "xmi:id") for e in doc["elems"] if xmlabs.kind(e) == "Sofa"]
    view_sofas = [xmlabs.attr(e, "sofa") for e in doc["elems"] if xmlabs.kind(e) == "View"]
    strcoll, anyfeat = [], []
    for e in doc["elems"]:
        ti = schema.get(type_of_elem(e)) if xmlabs.kind(e) == "FS" else None
        for fd in (ti["feats"] if ti else []):
            if fd[1] not in RESERVED_XML:
                (strcoll if fd[2] in (T + "StringArray", T + "StringList") else anyfeat).append(fd[1])
    pool = strcoll * 3 + anyfeat + ["elements", "tags", "item"]
    nxt = max(ids + [0]) + 1
    out = []
    for _ in range(n):
        while True:
            ns, tag = r.choice(FOREIGN_NS), r.choice(FOREIGN_TAGS) + r.choice(["", "", "2", "X"])
            if type_of_elem({"ns": ns, "tag": tag}) not in schema:
                break
        attrs, view = [], None
        p = r.random()
        if p < 0.88:
            if r.random() < 0.3:
                nxt += r.randrange(1, 40)
            attrs.append(["xmi:id", str(nxt)])
            if view_sofas and r.random() < 0.5:
                view = r.choice(view_sofas)
            nxt += 1
        elif p < 0.94:
            attrs.append(["xmi:id", ""])
        if sofa_ids and r.random() < 0.6:
            attrs.append(["sofa", r.choice(sofa_ids)])
            attrs.extend([["begin", str(r.randrange(3))], ["end", str(r.randrange(3, 6))]])
        names = [a[0] for a in attrs]
        for _k in range(r.randrange(3)):
            nm = r.choice(pool)
            if nm not in names:
                names.append(nm)
                attrs.append([nm, r.choice(["x y", "7", "", "true", "1.5"])])
        kids = []
        for _k in range(r.choice([0, 1, 1, 2, 2, 3])):
            kids.append([r.choice(pool), r.choice(["blue", "", "a b", "1", "x<&>"])])
        r.shuffle(attrs)
        out.append({"elem": _el(ns, tag, attrs, kids), "view": view})
    return out


RESERVED_XML = ("xmi:id",)


def with_foreign(schema, doc, spec):
    """The base document of a lenient source: the foreign elements after everything else, their ids in the member lists."""
    if "elems" in spec:
        items = spec["elems"]
    else:
        items = gen_foreign(random.Random(spec["seed"]), schema, doc, spec["n"])
    add = {}
    for it in items:
        i = xmlabs.attr(it["elem"], "xmi:id")
        if it.get("view") is not None and i:
            add.setdefault(str(it["view"]), []).append(i)
    elems = []
    for e in doc["elems"]:
        if xmlabs.kind(e) == "View" and xmlabs.attr(e, "sofa") in add:
            extra = add.pop(xmlabs.attr(e, "sofa"))
            r = random.Random(len(extra) * 7919 + len(elems))
            ms = (xmlabs.attr(e, "members") or "").split()
            for i in extra:
                ms.insert(r.randrange(len(ms) + 1), i)
            attrs = [list(a) for a in e["attrs"] if a[0] != "members"] + [["members", " ".join(ms)]]
            e = {"ns": e["ns"], "tag": e["tag"], "attrs": attrs, "kids": e["kids"]}
        elems.append(e)
    return {"root": doc.get("root"), "elems": elems + [it["elem"] for it in items]}


def base_of(cassis, src):
    """-> (type system object, schema dict, abstract document)."""
    ts, schema, doc = _base_of(cassis, src)
    if src.get("foreign"):
        doc = with_foreign(schema, doc, src["foreign"])
    return ts, schema, doc


def _base_of(cassis, src):
    if src["kind"] == "scen":
        ts = scen.build_ts(cassis, src["tspec"])
        cas, _views, _objs = scen.build_cas(cassis, ts, src["cspec"])
        return ts, scen.schema_of(cassis, src["tspec"]), xmlabs.parse(cas.to_xmi())
    if src["kind"] == "fixture":
        ts, schema = fixture_ts(cassis, src["ts"])
        with open(os.path.join(FIX, "xmi", src["xmi"]), "rb") as f:
            return ts, schema, xmlabs.parse(f.read())
    if src["kind"] == "hand":
        ts = scen.build_ts(cassis, src["tspec"])
        return ts, scen.schema_of(cassis, src["tspec"]), {"root": None, "elems": src["doc"]}
    raise ValueError(src["kind"])


def java_float(x, r):
    if math.isnan(x):
        return "NaN"
    if math.isinf(x):
        return "Infinity" if x > 0 else "-Infinity"
    s = repr(x)
    mant, _, exp = s.partition("e")
    if "." not in mant:
        mant += ".0"
    style = r.randrange(3)
    if exp:
        return "%sE%d" % (mant, int(exp))
    if style == 0:
        return mant + "E0"
    if style == 1 and abs(x) >= 10 and float(mant) == x:
        # move the point: 1234.5 -> 1.2345E3
        m, e = ("%.17e" % x).split("e")
        cand = "%sE%d" % (repr(float(m)), int(e))
        return cand if float(cand) == x else mant
    return mant


def apply_content(schema, doc, var, r):
    """Content rewrites the format allows; returns a new document."""
    elems = []
    has_null = any(xmlabs.kind(e) == "NULL" for e in doc["elems"])
    ev = var.get("empty_views")
    for e in doc["elems"]:
        if ev and xmlabs.kind(e) == "View" and not (xmlabs.attr(e, "members") or "").split():
            attrs = [list(a) for a in e["attrs"] if a[0] != "members"]
            if ev != "absent":
                attrs.append(["members", "" if ev == "blank" else " "])
            e = {"ns": e["ns"], "tag": e["tag"], "attrs": attrs, "kids": e["kids"]}
        if xmlabs.kind(e) != "FS":
            elems.append(e)
            continue
        tn = type_of_elem(e)
        ti = schema.get(tn)
        attrs = [list(a) for a in e["attrs"]]
        if ti is not None:
            kinds = {}
            if tn in scen.ARRS or tn == scen.FS_ARRAY:
                kinds["elements"] = "fltcoll" if tn in FLOAT_COLLS else "coll"
            else:
                for fd in ti["feats"]:
                    kinds[fd[1]] = feat_kind(schema, fd)
            if var.get("floats"):
                for a in attrs:
                    k = kinds.get(a[0])
                    if k == "flt":
                        a[1] = java_float(float(a[1]), r)
                    elif k == "fltcoll":
                        a[1] = " ".join(java_float(float(t), r) for t in a[1].split())
            if var.get("nullrefs") and has_null and not (tn in scen.ARRS or tn == scen.FS_ARRAY):
                base = T + "AnnotationBase" in ti["anc"]
                present = {a[0] for a in attrs}
                kidnames = {k for k, _t in e["kids"]}
                for fd in ti["feats"]:
                    if feat_kind(schema, fd) != "ref" or (fd[1] == "sofa" and base):
                        continue
                    if var["nullrefs"] == "zero" and fd[1] not in present and fd[1] not in kidnames and r.random() < 0.7:
                        attrs.append([fd[1], "0"])
                attrs2 = []
                for a in attrs:
                    fd = next((f for f in ti["feats"] if f[1] == a[0]), None)
                    if (var["nullrefs"] == "absent" and fd is not None and feat_kind(schema, fd) == "ref"
                            and not (fd[1] == "sofa" and base) and a[1].strip() == "0"):
                        continue
                    attrs2.append(a)
                attrs = attrs2
        elems.append({"ns": e["ns"], "tag": e["tag"], "attrs": attrs, "kids": e["kids"]})
    if ev:      # a sofa that had no View element gets one, in the chosen spelling
        have = {xmlabs.attr(e, "sofa") for e in elems if xmlabs.kind(e) == "View"}
        for e in doc["elems"]:
            if xmlabs.kind(e) == "Sofa" and xmlabs.attr(e, "xmi:id") not in have:
                attrs = [["sofa", xmlabs.attr(e, "xmi:id")]]
                if ev != "absent":
                    attrs.append(["members", "" if ev == "blank" else " "])
                elems.append({"ns": NS_CAS, "tag": "View", "attrs": attrs, "kids": []})
    return {"root": doc.get("root"), "elems": elems}


def order_of(doc, var, r):
    n = len(doc["elems"])
    idx = list(range(n))
    o = var.get("order")
    if o == "shuffle":
        r.shuffle(idx)
    elif o == "reverse":
        idx.reverse()
    elif o in ("sofa_first", "sofa_last"):
        sv = [i for i in idx if xmlabs.kind(doc["elems"][i]) in ("Sofa", "View")]
        rest = [i for i in idx if i not in sv]
        r.shuffle(rest)
        r.shuffle(sv)
        idx = sv + rest if o == "sofa_first" else rest + sv
    elif o == "desc_id":
        def key(i):
            try:
                return -int(xmlabs.attr(doc["elems"][i], "xmi:id", "0"))
            except ValueError:
                return 0
        idx.sort(key=key)
    return idx


def variant_doc(schema, doc, var):
    """The abstract document of the variant and its bytes."""
    r = random.Random(var.get("seed", 0))
    d2 = apply_content(schema, doc, var, r)
    idx = order_of(d2, var, r)
    d3 = {"root": d2.get("root"), "elems": [d2["elems"][i] for i in idx]}
    data = xmlabs.write(d3, order=None, prefixes=var.get("prefixes", "uima"),
                        shuffle_attrs=random.Random(var["seed"] + 1) if var.get("shuffle_attrs") else None,
                        pretty=bool(var.get("pretty")),
                        omit_empty_views=bool(var.get("omit_empty_views")) and not var.get("empty_views"),
                        self_close=var.get("self_close", True))
    return xmlabs.parse(data), data


def float_table(schema, doc):
    tbl = {}
    for e in doc["elems"]:
        if xmlabs.kind(e) != "FS":
            continue
        tn = type_of_elem(e)
        ti = schema.get(tn)
        if ti is None:
            continue
        if tn in FLOAT_COLLS:
            names = {"elements"}
        else:
            names = {fd[1] for fd in ti["feats"] if feat_kind(schema, fd) in ("flt", "fltcoll")}
        for k, v in e["attrs"]:
            if k in names:
                for t in ([v] + v.split()):
                    try:
                        tbl[t] = scen.fl(float(t))
                    except ValueError:
                        pass
    return tbl


# ------------------------------------------------------------------------------------------------ independent reading


def _u16_to_cp(text, u):
    """Code-point offset of the UTF-16 code-unit offset u in text; an offset that is not a boundary is passed through."""
    if text is None or text == "":
        return u
    acc = 0
    for i, ch in enumerate(text):
        if acc == u:
            return i
        acc += 2 if ord(ch) > 0xFFFF else 1
    return len(text) if acc == u else u


def _tok(kind, t):
    if kind == "int":
        return ["i", int(t)]
    if kind == "flt":
        return ["f", scen.fl(float(t))]
    if kind == "bool":
        if t not in ("true", "false"):
            raise ValueError(t)
        return ["b", t == "true"]
    raise ValueError(kind)


_ELEM = {T + "IntegerArray": "int", T + "ShortArray": "int", T + "LongArray": "int", T + "IntegerList": "int",
         T + "FloatArray": "flt", T + "DoubleArray": "flt", T + "FloatList": "flt", T + "BooleanArray": "bool"}


def _coll(rng, attr, kids):
    """Elements of a collection of type rng written as one attribute / as child elements; None: nothing written."""
    if rng in (T + "StringArray", T + "StringList"):
        if kids:
            return [None if t == "" else ["s", t] for t in kids]
        if attr is None:
            return None
        if attr != "":
            raise ValueError("string collection as attribute")
        return []
    if attr is None:
        return None
    if rng == T + "ByteArray":
        return [["i", b] for b in bytes.fromhex(attr)]
    if rng in (scen.FS_ARRAY, scen.FS_LIST):
        return [None if int(t) == 0 else ["ref", int(t)] for t in attr.split()]
    return [_tok(_ELEM[rng], t) for t in attr.split()]


def py_denote(schema, doc, lenient=False):
    """What the document says under the UIMA XMI rules, in the format of scen.canon (all feature structures).  A lenient
    reader is told nothing by the elements of types it does not know: neither they nor their ids in member lists count."""
    sofas, views, fs = {}, {}, {}
    skipped = set()
    if lenient:
        keep = []
        for e in doc["elems"]:
            if xmlabs.kind(e) == "FS" and type_of_elem(e) not in schema:
                i = xmlabs.attr(e, "xmi:id")
                if i:
                    skipped.add(int(i))
            else:
                keep.append(e)
        doc = {"root": doc.get("root"), "elems": keep}
    for e in doc["elems"]:
        a = dict(e["attrs"])
        k = xmlabs.kind(e)
        if k == "Sofa":
            st = a.get("sofaString")
            sofas[int(a["xmi:id"])] = {"id": int(a["xmi:id"]), "num": int(a["sofaNum"]), "name": a["sofaID"],
                                       "text": None if st is None else [ord(c) for c in st], "mime": a.get("mimeType"),
                                       "uri": a.get("sofaURI"), "arr": None if a.get("sofaArray") is None else int(a["sofaArray"]),
                                       "members": [], "_s": st}
        elif k == "View":
            views.setdefault(int(a["sofa"]), []).extend(int(t) for t in a.get("members", "").split() if int(t) not in skipped)
    for e in doc["elems"]:
        if xmlabs.kind(e) != "FS":
            continue
        a = dict(e["attrs"])
        tn = type_of_elem(e)
        ti = schema[tn]
        kids = {}
        for kname, t in e["kids"]:
            kids.setdefault(kname, []).append(t)
        feats = {}
        if tn in scen.ARRS or tn == scen.FS_ARRAY:
            for fd in ti["feats"]:
                feats[fd[1]] = None
            c = _coll(tn, a.get("elements"), kids.get("elements"))
            feats["elements"] = None if c is None else ["list", c]
        else:
            is_ann = scen.ANNOTATION in ti["anc"]
            base = T + "AnnotationBase" in ti["anc"]
            own = sofas.get(int(a["sofa"])) if (is_ann and "sofa" in a) else None
            for fd in ti["feats"]:
                _pn, xn, rng, _el, multi = fd
                p = prim_of(schema, rng)
                v = a.get(xn)
                if p:
                    if v is None:
                        feats[xn] = None
                    elif p == T + "String":
                        feats[xn] = ["s", v]
                    elif p in FLOAT_PRIMS:
                        feats[xn] = _tok("flt", v)
                    elif p == T + "Boolean":
                        feats[xn] = _tok("bool", v)
                    else:
                        z = int(v)
                        if is_ann and xn in ("begin", "end") and own is not None:
                            z = _u16_to_cp(own["_s"], z)
                        feats[xn] = ["i", z]
                elif multi or rng not in COLL_NAMES:
                    if v is None or int(v) == 0:
                        feats[xn] = None
                    else:
                        feats[xn] = ["sofa" if (xn == "sofa" and base) else "ref", int(v)]
                else:
                    c = _coll(rng, v, kids.get(xn))
                    feats[xn] = None if c is None else ["coll", rng, c]
        fs[int(a["xmi:id"])] = {"type": tn, "feats": feats}
    for i, so in sofas.items():
        so["members"] = sorted(views.get(i, []))
        del so["_s"]
    out = sorted(sofas.values(), key=lambda x: x["id"])
    if not any(x["name"] == "_InitialView" for x in out):
        ids = list(sofas) + list(fs) + [0]
        out.append({"id": max(ids) + 1, "num": max([x["num"] for x in out] + [0]) + 1, "name": "_InitialView", "text": None,
                    "mime": None, "uri": None, "arr": None, "members": []})
    return {"sofas": out, "fs": fs}


def reachable(den):
    """Ids of the feature structures a reader must keep: view members, sofa arrays and what they refer to."""
    todo = [m for so in den["sofas"] for m in so["members"]] + [so["arr"] for so in den["sofas"] if so["arr"] is not None]
    seen = set()

    def refs(v):
        if isinstance(v, list):
            if v and v[0] == "ref":
                yield v[1]
            elif v and v[0] in ("coll", "list"):
                for x in (v[-1] or []):
                    yield from refs(x)

    while todo:
        i = todo.pop()
        if i in seen or i not in den["fs"]:
            continue
        seen.add(i)
        for v in den["fs"][i]["feats"].values():
            todo.extend(refs(v))
    return seen


# ------------------------------------------------------------------------------------------------ engine interface


def run_impl(cassis, sc):
    ts, schema, base = base_of(cassis, sc["src"])
    base_bytes = xmlabs.write(base)
    vdoc, vbytes = variant_doc(schema, base, sc["var"])
    from io import BytesIO
    if sc["src"].get("expect"):                       # a document the strict reader must refuse
        try:
            cassis.load_cas_from_xmi(BytesIO(vbytes), typesystem=ts)
            return {"error": None}
        except Exception as e:  # noqa: the kind is the observation
            return {"error": type(e).__name__}
    lenient = bool(sc.get("lenient"))
    base_loaded = cassis.load_cas_from_xmi(BytesIO(base_bytes), typesystem=ts, lenient=lenient)
    try:
        loaded = cassis.load_cas_from_xmi(BytesIO(vbytes), typesystem=ts, lenient=lenient)
    except Exception as e:  # noqa: the base presentation loads, this one does not
        return {"load_error": "%s: %s" % (type(e).__name__, e), "bytes": vbytes.decode("utf-8")[:1500]}
    obs = scen.canon(loaded, "xmi")
    names = used_names(schema, vdoc)
    return {"canon": obs, "base": scen.canon(base_loaded, "xmi"), "doc": vdoc, "flts": float_table(schema, vdoc),
            "schema": {n: {"anc": schema[n]["anc"], "feats": [list(f) for f in schema[n]["feats"]]} for n in names}}


def _norm(c):
    """Canonical content as comparable JSON (ids as strings after a JSON round trip)."""
    return json.loads(json.dumps(c, sort_keys=True))


def oracle(cassis, sc, obs):
    if sc["src"].get("expect"):
        if obs["error"] != sc["src"]["expect"]:
            return "a document with an element of an undefined type was not refused with %s: %s" % (sc["src"]["expect"], obs["error"])
        return None
    if "load_error" in obs:
        return "a presentation variant of a document that loads cannot be loaded (%s): %s" % (obs["load_error"], obs["bytes"][:900])
    a, b = _norm(obs["canon"]), _norm(obs["base"])
    # (1) what the variant document says, read independently (closed documents only: every fixture but one)
    schema = {n: {"anc": v["anc"], "feats": [tuple(f) for f in v["feats"]]} for n, v in obs["schema"].items()}
    try:
        den = py_denote(schema, obs["doc"], bool(sc.get("lenient")))
    except (KeyError, ValueError) as e:  # not a document the rules give a meaning to
        den = None
    if den is not None and not (set(den["fs"]) & {x["id"] for x in den["sofas"]}):
        keep = reachable(den)
        want = _norm({"sofas": den["sofas"], "fs": {i: den["fs"][i] for i in keep}})
        if a["sofas"] != want["sofas"]:
            return "views/sofas are not the ones the document describes: loaded %s, document %s" % (
                json.dumps(a["sofas"])[:400], json.dumps(want["sofas"])[:400])
        for i in sorted(set(a["fs"]) | set(want["fs"]), key=int):
            if a["fs"].get(i) != want["fs"].get(i):
                return "feature structure %s is not the one the document describes: loaded %s, document %s" % (
                    i, json.dumps(a["fs"].get(i))[:400], json.dumps(want["fs"].get(i))[:400])
    # (2) the same content as the base presentation
    if a == b:
        return None
    if a["sofas"] != b["sofas"]:
        return "views/sofas differ between the variant and the base document: %s vs %s" % (
            json.dumps(a["sofas"])[:300], json.dumps(b["sofas"])[:300])
    for i in sorted(set(a["fs"]) | set(b["fs"]), key=int):
        if a["fs"].get(i) != b["fs"].get(i):
            return "feature structure %s differs between the variant and the base document: %s vs %s" % (
                i, json.dumps(a["fs"].get(i))[:300], json.dumps(b["fs"].get(i))[:300])
    return "canonical content differs"


def render(sc, obs):
    if "error" in obs or "load_error" in obs:          # refused documents are compared with the model in C17
        return None
    schema = {n: {"anc": v["anc"], "feats": [tuple(f) for f in v["feats"]]} for n, v in obs["schema"].items()}
    flts = glist(["(%s, %s)" % (gstr(k), gstr(v)) for k, v in sorted(obs["flts"].items())])
    return "mkLCase %s (mkCase\n %s\n %s\n %s\n (%s))" % ("true" if sc.get("lenient") else "false", scen.g_schema(schema),
                                                         xmlabs.g_xdoc(obs["doc"]), flts, scen.g_ccas(obs["canon"]))


def nontrivial(sc):
    v = sc["var"]
    return bool(v.get("order") or v.get("floats") or v.get("nullrefs") or v.get("empty_views"))


def _variants(r, n, with_content=True):
    out = [{"seed": r.randrange(1 << 30)}]
    for _ in range(n):
        v = {"seed": r.randrange(1 << 30),
             "order": r.choice(["shuffle", "shuffle", "reverse", "sofa_first", "sofa_last", "desc_id", None]),
             "prefixes": r.choice(["uima", "fresh"]), "shuffle_attrs": r.random() < 0.6, "pretty": r.random() < 0.4,
             "omit_empty_views": r.random() < 0.5, "self_close": r.random() < 0.6}
        if with_content:
            v["floats"] = r.random() < 0.5
            v["nullrefs"] = r.choice([None, "zero", "absent"])
        # fourth wave: how an empty view is spelled; drawn from a stream of its own so that every other choice stays as it was
        r2 = random.Random(v["seed"] ^ 0x4E57)
        if r2.random() < 0.4:
            v["empty_views"] = r2.choice(["absent", "absent", "blank", "space"])
        out.append(v)
    return out


def _lenient_variants(r, n):
    out = [{"seed": r.randrange(1 << 30)}]
    for _ in range(n):
        out.append({"seed": r.randrange(1 << 30), "order": r.choice(["shuffle", "shuffle", "shuffle", "reverse", "sofa_first", "sofa_last"]),
                    "prefixes": r.choice(["uima", "fresh"]), "shuffle_attrs": r.random() < 0.5, "pretty": r.random() < 0.4,
                    "self_close": r.random() < 0.6})
    return out


def _el(ns, tag, attrs, kids=()):
    return {"ns": ns, "tag": tag, "attrs": [list(a) for a in attrs], "kids": [list(k) for k in kids]}


def hand_sources():
    """Documents no writer of this library produces."""
    tspec = [{"name": "h.F", "super": scen.TOP, "feats": [
        {"name": "d", "range": T + "Double", "elem": None, "multi": None},
        {"name": "f", "range": T + "Float", "elem": None, "multi": None},
        {"name": "da", "range": T + "DoubleArray", "elem": None, "multi": None},
        {"name": "fl", "range": T + "FloatList", "elem": None, "multi": None},
        {"name": "r", "range": "h.F", "elem": None, "multi": None},
        {"name": "sa", "range": T + "DoubleArray", "elem": None, "multi": True}]},
        {"name": "h.A", "super": scen.ANNOTATION, "feats": [{"name": "r", "range": "h.F", "elem": None, "multi": None}]}]
    hns = "http:///h.ecore"
    sofa1 = _el(NS_CAS, "Sofa", [["xmi:id", "1"], ["sofaNum", "1"], ["sofaID", "_InitialView"], ["mimeType", "text"],
                                 ["sofaString", "a\U0001F600b"]])
    null = _el(NS_CAS, "NULL", [["xmi:id", "0"]])
    lits = ["1.0E10", "1.0E-5", "NaN", "Infinity", "-Infinity", "4.9E-324", "1.7976931348623157E308", "-0.0", "3"]
    out = []
    docs = []
    for i, lit in enumerate(lits):
        docs.append([null, sofa1,
                     _el(hns, "F", [["xmi:id", "7"], ["d", lit], ["f", lits[(i + 1) % len(lits)]], ["da", " ".join(lits[i:] + lits[:i])],
                                    ["fl", " ".join(lits[:i + 1])], ["r", "8"], ["sa", "9"]]),
                     _el(hns, "F", [["xmi:id", "8"], ["r", "7"]]),
                     _el(NS_CAS, "DoubleArray", [["xmi:id", "9"], ["elements", lit + " " + lits[-1 - i]]]),
                     _el(hns, "A", [["xmi:id", "12"], ["sofa", "1"], ["begin", "1"], ["end", "3"], ["r", "7"]]),
                     _el(NS_CAS, "View", [["sofa", "1"], ["members", "7 12"]])])
    # a second sofa with a URI, a sofa whose data is a byte array stored anywhere, no members
    docs.append([null, sofa1,
                 _el(NS_CAS, "ByteArray", [["xmi:id", "20"], ["elements", "00FF10"]]),
                 _el(NS_CAS, "Sofa", [["xmi:id", "5"], ["sofaNum", "2"], ["sofaID", "remote"], ["mimeType", "x"], ["sofaURI", "file:/x y"]]),
                 _el(NS_CAS, "Sofa", [["xmi:id", "6"], ["sofaNum", "3"], ["sofaID", "bytes"], ["sofaArray", "20"]]),
                 _el(hns, "A", [["xmi:id", "12"], ["sofa", "5"], ["begin", "0"], ["end", "0"]]),
                 _el(hns, "F", [["xmi:id", "7"], ["r", "7"]]),
                 _el(NS_CAS, "View", [["sofa", "1"], ["members", "7"]]),
                 _el(NS_CAS, "View", [["sofa", "5"], ["members", "12"]]),
                 _el(NS_CAS, "View", [["sofa", "6"], ["members", ""]])])
    # no _InitialView sofa at all; astral text in a named view
    docs.append([null,
                 _el(NS_CAS, "Sofa", [["xmi:id", "3"], ["sofaNum", "4"], ["sofaID", "other"], ["mimeType", "text"],
                                      ["sofaString", "\U00010000x\U0010FFFFy"]]),
                 _el(hns, "A", [["xmi:id", "9"], ["sofa", "3"], ["begin", "2"], ["end", "5"], ["r", "11"]]),
                 _el(hns, "F", [["xmi:id", "11"], ["d", "2.5"]]),
                 _el(NS_CAS, "View", [["sofa", "3"], ["members", "9"]])])
    for d in docs:
        out.append({"kind": "hand", "tspec": tspec, "doc": d})
    # an element of an undefined no-namespace type whose short name is the short name of a defined type: not loadable
    out.append({"kind": "hand", "tspec": tspec, "expect": "TypeNotFoundError",
                "doc": [null, sofa1, _el("http:///uima/noNamespace.ecore", "F", [["xmi:id", "7"]]),
                        _el(NS_CAS, "View", [["sofa", "1"], ["members", "7"]])]})
    # fourth wave: an empty view as a foreign writer may spell it - a View element that has a sofa but no members attribute
    two = [null, _el("http:///uima/tcas.ecore", "Annotation", [["xmi:id", "5"], ["sofa", "1"], ["begin", "0"], ["end", "4"]]), sofa1,
           _el(NS_CAS, "Sofa", [["xmi:id", "2"], ["sofaNum", "2"], ["sofaID", "second"], ["mimeType", "text/plain"],
                                ["sofaString", "other text"]]),
           _el(NS_CAS, "View", [["sofa", "1"], ["members", "5"]])]
    out.append({"kind": "hand", "tspec": tspec, "doc": two + [_el(NS_CAS, "View", [["sofa", "2"]])]})
    out.append({"kind": "hand", "tspec": tspec, "doc": [_el(NS_CAS, "View", [["sofa", "2"]])] + two[:1] + two[2:4]
                + [_el(NS_CAS, "View", [["sofa", "1"]])]})
    return out


def lenient_hand_sources():
    """Documents of a writer with a richer type system, to be loaded with lenient=True."""
    tspec = [{"name": "h.N", "super": scen.ANNOTATION, "feats": [
        {"name": "tags", "range": T + "StringArray", "elem": None, "multi": None},
        {"name": "labels", "range": T + "StringList", "elem": None, "multi": None},
        {"name": "next", "range": "h.N", "elem": None, "multi": None}]},
        {"name": "h.P", "super": scen.TOP, "feats": [{"name": "tags", "range": T + "StringArray", "elem": None, "multi": None}]}]
    hns = "http:///h.ecore"
    null = _el(NS_CAS, "NULL", [["xmi:id", "0"]])
    sofa1 = _el(NS_CAS, "Sofa", [["xmi:id", "1"], ["sofaNum", "1"], ["sofaID", "_InitialView"], ["mimeType", "text/plain"],
                                 ["sofaString", "some text"]])
    doc = [null,
           _el(hns, "N", [["xmi:id", "5"], ["sofa", "1"], ["begin", "0"], ["end", "4"], ["next", "6"]], [["tags", "red"], ["tags", "green"]]),
           _el(hns, "N", [["xmi:id", "6"], ["sofa", "1"], ["begin", "5"], ["end", "9"]], [["labels", "l1"]]),
           _el(hns, "P", [["xmi:id", "8"]]),
           _el(NS_CAS, "StringArray", [["xmi:id", "9"]], [["elements", "e1"]]),
           sofa1, _el(NS_CAS, "View", [["sofa", "1"], ["members", "5 6 8"]])]
    f1 = [{"elem": _el("http:///other.ecore", "Unknown", [["xmi:id", "7"], ["sofa", "1"], ["begin", "0"], ["end", "2"]],
                       [["tags", "blue"]]), "view": "1"}]
    f2 = [{"elem": _el("http:///uima/noNamespace.ecore", "N", [["tags", ""], ["xmi:id", "17"]],
                       [["labels", "x"], ["elements", "y"], ["bogus", ""]]), "view": None},
          {"elem": _el(hns, "Q", [["next", "5"]], [["tags", "t"], ["tags", "u"]]), "view": None}]
    return [{"kind": "hand", "tspec": tspec, "doc": doc, "foreign": {"elems": f1}},
            {"kind": "hand", "tspec": tspec, "doc": doc, "foreign": {"elems": f2}}]


def generate(rng, tier):
    from harness import core
    cassis = core.load_impl() if "cassis" not in _CACHE else _CACHE["cassis"]
    _CACHE["cassis"] = cassis
    n_scen = {"quick": 48, "thorough": 260, "search": 300}[tier]
    n_var = {"quick": (1, 2), "thorough": (4, 6), "search": (3, 5)}[tier]
    scen_sources = []
    for k in range(n_scen):
        r = random.Random(rng.randrange(1 << 30))
        tspec = scen.gen_tspec(r, n_types=r.choice([3, 5, 8]), max_feats=r.choice([3, 5]))
        cspec = scen.gen_cspec(r, cassis, tspec, n_objs=(1, 5 if tier == "quick" else 10))
        src = {"kind": "scen", "tspec": tspec, "cspec": cspec}
        scen_sources.append(src)
        for v in _variants(r, r.randint(*n_var)):
            yield {"src": src, "var": v}
    for xmi, ts in FIXTURES:
        r = random.Random(rng.randrange(1 << 30))
        big = xmi == "cas_with_smileys.xmi"
        nv = 1 if (big and tier == "quick") else r.randint(*n_var)
        for v in _variants(r, nv)[(1 if big else 0):]:
            yield {"src": {"kind": "fixture", "xmi": xmi, "ts": ts}, "var": v}
    for src in hand_sources():
        r = random.Random(rng.randrange(1 << 30))
        for v in _variants(r, 1 if tier == "quick" else 4, with_content=False):
            yield {"src": src, "var": v}
    # fourth wave: the lenient family (a stream of its own, drawn after everything else)
    rl = random.Random(rng.randrange(1 << 30))
    n_lv = 2 if tier == "quick" else 4
    for src in lenient_hand_sources():
        for v in _lenient_variants(rl, n_lv):
            yield {"src": src, "var": v, "lenient": True}
    for src in scen_sources[::4]:
        src = dict(src, foreign={"seed": rl.randrange(1 << 30), "n": rl.choice([1, 1, 2, 3])})
        for v in _lenient_variants(rl, n_lv):
            yield {"src": src, "var": v, "lenient": True}


def _drop_obj(cspec, lab):
    c = json.loads(json.dumps(cspec))

    def fix(v):
        if isinstance(v, dict):
            if v.get("ref") == lab:
                return None
            if "list" in v:
                return {"list": [fix(x) for x in v["list"]]}
        return v

    c["objs"] = [o for o in c["objs"] if o["o"] != lab]
    for o in c["objs"]:
        o["slots"] = {k: fix(v) for k, v in o["slots"].items()}
        if o["slots"].get("tail", 1) is None:
            return None
    c["members"] = [m for m in c["members"] if m[1] != lab]
    return c if c["members"] else None


def shrink_candidates(sc):
    v = sc["var"]
    for k in ("floats", "nullrefs", "shuffle_attrs", "pretty", "omit_empty_views", "order"):
        if v.get(k):
            c = json.loads(json.dumps(sc))
            c["var"][k] = None if k in ("nullrefs", "order") else False
            yield c
    if v.get("prefixes") == "fresh":
        c = json.loads(json.dumps(sc))
        c["var"]["prefixes"] = "uima"
        yield c
    if not v.get("self_close", True):
        c = json.loads(json.dumps(sc))
        c["var"]["self_close"] = True
        yield c
    f = sc["src"].get("foreign")
    if f and f.get("n", 0) > 1:
        c = json.loads(json.dumps(sc))
        c["src"]["foreign"]["n"] = f["n"] - 1
        yield c
    if f and len(f.get("elems", [])) > 1:
        for i in range(len(f["elems"])):
            c = json.loads(json.dumps(sc))
            del c["src"]["foreign"]["elems"][i]
            yield c
    if sc["src"]["kind"] == "scen":
        for o in reversed(sc["src"]["cspec"]["objs"]):
            c2 = _drop_obj(sc["src"]["cspec"], o["o"])
            if c2 is not None:
                c = json.loads(json.dumps(sc))
                c["src"]["cspec"] = c2
                yield c
    if sc["src"]["kind"] == "hand":
        doc = sc["src"]["doc"]
        for i, e in enumerate(doc):
            ident = xmlabs.attr(e, "xmi:id")
            named = any(ident in v.split() for j, o in enumerate(doc) if j != i for k, v in o["attrs"] if k != "xmi:id")
            if xmlabs.kind(e) == "FS" and not named:          # the document must stay closed
                c = json.loads(json.dumps(sc))
                del c["src"]["doc"][i]
                yield c


def signature(sc, msg):
    return {"what": (msg or "").split(":")[0].split("(")[0][:60], "src": sc["src"]["kind"]}


def distribution(scenarios, observations):
    kinds = {}
    for s in scenarios:
        kinds[s["src"]["kind"]] = kinds.get(s["src"]["kind"], 0) + 1
    knobs = {}
    for s in scenarios:
        for k, v in s["var"].items():
            if k != "seed" and v:
                knobs["%s=%s" % (k, v)] = knobs.get("%s=%s" % (k, v), 0) + 1
    observations = [o for o in observations if o and "doc" in o]
    n_el = [len(o["doc"]["elems"]) for o in observations if o]
    return {"cases": len(scenarios), "by_source": kinds, "knobs": knobs, "max_elements": max(n_el or [0]),
            "lenient": sum(1 for s in scenarios if s.get("lenient")),
            "memberless_view_elements": sum(1 for o in observations for e in o["doc"]["elems"]
                                            if xmlabs.kind(e) == "View" and xmlabs.attr(e, "members") is None),
            "foreign_elements_with_children": sum(1 for o in observations for e in o["doc"]["elems"]
                                                  if xmlabs.kind(e) == "FS" and e["kids"] and type_of_elem(e) not in o["schema"]),
            "float_literals": sum(len(o["flts"]) for o in observations if o),
            "fixtures": sorted({s["src"]["xmi"] for s in scenarios if s["src"]["kind"] == "fixture"})}


# ---- JSON half of C05: a sub-suite with its own case type (harness/props/C05json.py, coq/CorrC05json.v) ----
from harness.props import C05json  # noqa: E402
SUBSUITES = {"json": C05json}


def extra_checks(ctx):
    from harness import core
    return core.run_subsuite(C05json, ctx)


MANIFEST = {
    "level_text": "Machine-checked proof (Coq 8.16) over an executable model of the XMI reader (two passes, id-keyed dicts, "
                  "post-processing branch chain, offsets, views) and over the declarative denotation of abstract documents: the "
                  "denotation is invariant under element and attribute permutation and omission of empty views, and the reader's "
                  "result has the denoted content; model and denotation are tied to /repo on every run by evaluating both "
                  "inside Coq on presentation and content variants of generated documents and of the repository fixtures.",
    "level_note": "Trusted: Coq kernel + vm_compute; hand-written models XmiLoad.v / XmiDoc.v; xml.etree for bytes <-> abstract "
                  "documents (namespace resolution, escaping, iterparse order are below the model); float(str) as a table per "
                  "case. The JSON half of C05 runs as sub-suite C05json (harness/props/C05json.py, CorrC05json.v); its theorems "
                  "C05_json_* (proved in JsonProofs*.v / JsonLoadProofs.v / JsonLex.v, collected in PropsJson.v; omission of the %VIEWS "
                  "entries of member-less views: JsonViewOmit.v / JsonViewOmitProofs.v) are in the same Props file coq/Props/C05.v.",
    "technique": "Coq proof over an executable Gallina model + in-Coq behavioural correspondence + direct oracle (variant vs base)",
    "design_ref": "DESIGN.md section 5, C05",
}
