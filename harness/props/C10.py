"""C10 — type hierarchy queries agree with the declared single-inheritance tree."""
import itertools
import json

from harness.props import C10merge, C10xml
from harness.props import c10queries as Q
from harness.props import tscommon as T
from harness.props.tscommon import Tree

ID = "C10"
COQ_TARGETS = ["TS.vo", "TSProofs.vo", "TSProofs2.vo", "C10Merge.vo", "C10Load.vo", "C10LoadProofs.vo", "CorrC10.vo",
               "CorrC10merge.vo", "CorrC10xml.vo", "Props/C10.vo"]
SUBSUITES = {"merge": C10merge, "xml": C10xml}
PROPS_FILE = "Props/C10.v"
CORR_IMPORTS = "Base TS CorrC10"
OPEN_SCOPES = ["string_scope", "list_scope"]
CASES_PER_SHARD = 120
SHARD_BYTES = 150_000
ENTRY = "cassis.typesystem.TypeSystem.create_type/get_type/contains_type/subsumes/is_instance_of, Type.children/descendants/subsumes"
SHARD_JOBS = 14
RULE = (
    "histories of create_type (parents: built-in, user, short names, final, unknown, ambiguous; duplicate user and predefined "
    "names), create_feature and instantiation applied to a fresh TypeSystem(); quick: every history of length <= 2 over a "
    "32-operation alphabet on the pool {a.A, a.B, b.A}, a seeded sample of the length-3/4 histories, and seeded random trees "
    "(depth <= 8, fan-out <= 3, 6-24 types) with refused operations mixed in; thorough: larger samples. On the final state all "
    "ordered pairs of the queried names go through ts.subsumes, Type.subsumes and is_instance_of; supertype, children, "
    "descendants, is_primitive per name; get_type/contains_type over full, short, unknown and ambiguous strings; 8-12 pairs of "
    "strings (parent, child), each a full, unique short, ambiguous or unknown name, go through ts.subsumes and is_instance_of "
    "(and through is_instance_of with one side passed as the registered Type); object identity of every reachable Type. "
    "Every 200th case queries all registered types. Non-trivial: two user types in an ancestor relation, or a refused operation. "
    "Sub-suite 'merge' (harness/props/C10merge.py, coq/CorrC10merge.v): 2-3 input type systems built once and a program of "
    "stages run on those live objects - merge_typesystems over any objects of the table (the same input in several merges, a "
    "merge result merged again), create_type / create_feature applied in place to an input or a merge result; before the first "
    "and after every stage ALL objects are queried again (supertype of every type, children, descendants, the three subsumes "
    "forms and is_instance_of on all pairs of user types + TOP/AnnotationBase/Annotation, object identity of every reachable "
    "Type) and compared with the model's value of that object (Merge.v on TS.v) and with the declared tree of the oracle "
    "(most specific declared supertype; reachability in the union of the declared edges). Quick: all ordered pairs of 11 "
    "declarations of {m.A, m.B, m.C} under three programs + 80 seeded random cases over 5 types on a random guide forest. "
    "Sub-suite 'xml' (harness/props/C10xml.py, coq/CorrC10xml.v): a descriptor written by the harness - a forest of user types "
    "with full and DOT-FREE names sharing short names ({a.A, A, b.A, B}: every forest of <= 2 types, a sample of those of 3; "
    "random forests of 4-12 types, depth <= 7), typeDescriptions in any document order, features with built-in / user range "
    "and element types, 6 % with a type below a final array type (must be refused) - is loaded with load_typesystem, 0-3 "
    "create_type / create_feature / instantiation calls follow on the loaded object, then the same query battery as the main "
    "suite runs on it; compared with C12's model of the reader replayed on TS.v (C10Load.load_ts) and judged against the tree "
    "the descriptor declares. Quick: 130 enumerated + 70 random."
)
TRUSTED = [
    "Coq 8.16.1 kernel and vm_compute; theorems in Props/C10.v are closed under the global context",
    "hand-written model coq/TS.v of cassis/typesystem.py (Type, Feature, TypeSystem); types refer to each other by full name "
    "inside one type system, Python object identity is observed by the harness (`is`) and not represented in the model",
    "the model's initial state equals the observed TypeSystem() (extra obligation, decided by vm_compute on every run)",
    "correspondence harness harness/props/C10.py + tscommon.py builds real objects through the public API; harness/core.py "
    "compares inside Coq; oracle = independent tree bookkeeping in Python with a hand-written table of the built-in types",
    "the ghost rank supplies the fuel of the recursive queries; the theorems state that it suffices",
    "merged type systems: C13's model coq/Merge.v of merge_typesystems (its own correspondence check ties it to /repo; here it "
    "is evaluated on every merge stage and compared again) and MergeProofs.merge_WFh",
    "loaded type systems: C12's model coq/Descr.v + coq/DescrTS.v of TypeSystemDeserializer (its own correspondence check ties it "
    "to /repo; here it is evaluated on every case of the sub-suite 'xml' and compared again) and DescrTSProofs.loaded_WF; the "
    "creation order chosen by toposort_flatten is observed and constrained by Descr.order_okb",
]
ASSUMPTIONS = [
    "type systems built by create_type / create_feature / instantiation from TypeSystem() and by merge_typesystems of such type "
    "systems, nested and extended (C10_built_WF; sub-suite 'merge'); a merge that raises ValueError is not judged here (which "
    "inputs must merge is C13); load_typesystem of descriptors that declare every user type once, with declared or built-in "
    "supertypes / ranges and no feature declared twice along a chain, in any document order, extended afterwards "
    "(C10_obtained_WF; sub-suite 'xml'; which descriptors load and what is written back is C12); JSON-embedded type systems are "
    "C02 (theorems are stated for every ts with WFh ts)",
    "identifiers are ASCII; type names are non-empty and do not end in a dot",
    "is_instance_of on arbitrary strings is compared with the model on every string pair; the oracle demands the declared "
    "relation (or TypeNotFoundError for a name get_type does not resolve) except where the code compares the strings before "
    "any lookup: two different spellings of ONE type (is_instance_of('a.A','A') is False), the same unregistered string twice "
    "(True), child uima.cas.TOP with an unknown or short-named parent (False), child 'TOP' (AttributeError) - modelled and "
    "compared with the model, not judged by the oracle (reported as quirks)",
]

POOL = ["a.A", "a.B", "b.A"]
PARENTS = ["uima.tcas.Annotation", "a.A", "a.B", "b.A", "A", "B", "uima.cas.StringArray", "StringArray", "no.Such"]
BASE_LOOKUPS = ["a.A", "a.B", "b.A", "A", "B", "Annotation", "uima.tcas.Annotation", "TOP", "StringArray", "no.Such", "Nope",
                "uima.cas.Nope", "DocumentAnnotation", "cas.String", "String"]


# string pairs (parent, child) of every exhaustively enumerated history: the parent as a unique / ambiguous short name of a
# user type, the short name of a built-in ancestor, an unknown name; the child by full name
FIXED_NAME_PAIRS = [["Annotation", "a.A"], ["A", "a.B"], ["B", "b.A"], ["TOP", "b.A"], ["Nope", "a.A"], ["AnnotationBase", "B"]]


def _det_pairs(users):
    """string pairs (parent, child) of an enumerated history, directed at the types it declares"""
    cand = [["Annotation", "A"], ["a.A", "B"], ["TOP", "Nope"], ["B", "a.B"]]
    for u in users[:2]:
        cand += [["Annotation", u], ["AnnotationBase", T.short(u)]]
    for u in users[:2]:
        cand += [[T.short(u), v] for v in users[:3] if v != u]
    if users:
        cand += [["Nope", users[0]], ["TOP", users[-1]]]
    pairs = []
    for p in cand + FIXED_NAME_PAIRS:
        if p not in pairs:
            pairs.append(p)
    return pairs[:12]


def ct(n, s, d=None):
    return {"op": "ct", "n": n, "s": s, "d": d}


def cf(dom, n, r, e=None, m=None, d=None):
    return {"op": "cf", "dom": dom, "n": n, "r": r, "e": e, "m": m, "d": d}


ALPHABET = [ct(x, p) for x in POOL for p in PARENTS] + [
    ct("uima.cas.Integer", T.TOP), cf("a.A", "f", "uima.cas.Integer"),
    # references to user types from features: range, and element type of FSArray / FSList (identity after an XML round trip)
    cf("a.B", "arr", "uima.cas.FSArray", e="a.A"), cf("a.A", "lst", "uima.cas.FSList", e="a.B"), cf("a.A", "ref", "a.B")]


def _mk(ops, rng=None, extra_names=(), full=False):
    """attach the query sets to a history"""
    users = []
    for op in ops:
        if op["op"] == "ct" and op["n"] not in users and op["n"] not in T.BUILTIN_NAMES:
            users.append(op["n"])
    if full:
        names = list(T.BUILTIN_NAMES) + users
    else:
        parents = [op["s"] for op in ops if op["op"] == "ct" and op["s"] in T.BUILTIN_NAMES]
        names = []
        for n in users[:6] + parents[:2] + [T.TOP, "uima.cas.String"] + list(extra_names):
            if n not in names:
                names.append(n)
        names = names[:9]
    lookups = []
    for s in BASE_LOOKUPS + users + [T.short(u) for u in users]:
        if s not in lookups:
            lookups.append(s)
    lookups = lookups[:22]
    pairs = []
    if rng is not None:
        for _ in range(4):
            pairs.append([rng.choice(lookups), rng.choice(lookups)])
    else:
        pairs = _det_pairs(users)
    if rng is not None:
        # (parent, child): the parent by any spelling get_type accepts or refuses, the child mostly a registered full name
        par = [T.short(u) for u in users] + users[:3] + ["Annotation", "TOP", "AnnotationBase", "Nope", "no.Such", "String"]
        for _ in range(4):
            pairs.append([rng.choice(par), rng.choice(users + [T.short(users[0])]) if users else rng.choice(lookups)])
        pairs.append([rng.choice(par), rng.choice(["uima.tcas.DocumentAnnotation", "uima.cas.TOP", "DocumentAnnotation", "Nope"])])
        pairs.append([rng.choice(lookups), rng.choice(lookups)])
    refs_user = any(op["op"] == "cf" and (op.get("e") in users or op["r"] in users or T.short(op["r"]) in [T.short(u) for u in users])
                    for op in ops)
    return {"ops": ops, "names": names, "lookups": lookups, "pairs": pairs, "xml": bool(users) and (refs_user or len(ops) % 3 == 0)}


def _random_history(rng, big):
    n_types = rng.randint(6, 24 if big else 12)
    pk = ["a", "b", "c", ""]
    ops, users = [], []
    depth = {}
    builtin_parents = ["uima.tcas.Annotation", "uima.cas.TOP", "uima.cas.String", "uima.cas.FSArray", "uima.cas.Sofa",
                       "uima.cas.NULL", "uima.tcas.DocumentAnnotation", "Annotation", "uima.cas.ArrayBase", "uima.cas.Integer"]
    kids = {}
    for i in range(n_types):
        sh = rng.choice(["T", "U", "V", "W"]) + str(rng.randint(0, 3 if big else 2))
        p = rng.choice(pk)
        name = (p + "." + sh) if p else sh
        if rng.random() < 0.08:
            name = "x.y." + sh
        # parent: mostly the deepest chains grow (depth up to 8, fan-out up to 3)
        cands = [u for u in users if depth[u] < 8 and kids.get(u, 0) < 3]
        if cands and rng.random() < 0.8:
            cands.sort(key=lambda u: -depth[u])
            par = rng.choice(cands[:3]) if rng.random() < 0.6 else rng.choice(cands)
            parent_str = par
            if rng.random() < 0.15:
                parent_str = T.short(par)        # may be ambiguous
        else:
            par = None
            parent_str = rng.choice(builtin_parents)
        ops.append(ct(name, parent_str, rng.choice([None, None, None, "d"])))
        if name not in users and name not in T.BUILTIN_NAMES:
            # the generator does not know whether the operation succeeds; depth bookkeeping is only a generation heuristic
            users.append(name)
            depth[name] = (depth[par] + 1) if par else 1
            if par:
                kids[par] = kids.get(par, 0) + 1
        r = rng.random()
        if r < 0.10 and users:
            ops.append(ct(rng.choice(users), rng.choice(users + builtin_parents)))            # duplicate
        elif r < 0.16:
            ops.append(ct("z.F" + str(i), rng.choice(sorted(T.FINAL) + ["StringArray", "IntegerArray"])))   # final parent
        elif r < 0.22:
            ops.append(ct("z.N" + str(i), rng.choice(["no.Such", "Nope", "uima.cas.Nope", "T9"])))           # unknown parent
        elif r < 0.26:
            ops.append(ct(rng.choice(T.BUILTIN_NAMES), rng.choice(builtin_parents)))         # predefined name
        elif r < 0.42 and users:
            r_ = rng.choice(["uima.cas.Integer", "uima.cas.String", "uima.cas.FSArray", "uima.cas.FSArray", "uima.cas.FSList", "Nope"]
                            + users[:2])
            e_ = rng.choice([None, "uima.tcas.Annotation"] + users[-2:] + users[:1]) if r_ in ("uima.cas.FSArray", "uima.cas.FSList") else None
            ops.append(cf(rng.choice(users + [T.short(rng.choice(users))]), rng.choice(["f", "g", "h", "self"]), r_, e_,
                          rng.choice([None, None, True])))
        elif r < 0.46 and users:
            ops.append({"op": "inst", "t": rng.choice(users)})
    extra = [rng.choice(T.BUILTIN_NAMES)]
    deep = sorted(users, key=lambda u: -depth[u])[:4]
    sc = _mk(ops, rng, extra_names=extra)
    names = []
    for n in deep + sc["names"]:
        if n not in names:
            names.append(n)
    sc["names"] = names[:9]
    return sc


def generate(rng, tier):
    if tier != "search":
        yield _mk([], full=True)
        for L in (1, 2):
            for k, h in enumerate(itertools.product(ALPHABET, repeat=L)):
                yield _mk([dict(o) for o in h], full=(k % 200 == 7))
        n_s = {"quick": 140, "thorough": 6000}[tier]
        for k in range(n_s):
            L = 3 if k % 2 == 0 else 4
            yield _mk([dict(rng.choice(ALPHABET)) for _ in range(L)], rng, full=(k % 200 == 7))
    n_r = {"quick": 160, "thorough": 5000, "search": 3000}[tier]
    for k in range(n_r):
        sc = _random_history(rng, big=(k % 3 == 0))
        if k % 200 == 7:
            sc = dict(_mk(sc["ops"], rng, full=True), pairs=sc["pairs"])
        yield sc


# ---------------------------------------------------------------------------------------------- implementation
def run_impl(cassis, sc):
    ts, outcomes, changed = T.run_ops(cassis, sc["ops"])
    obs = {"out": outcomes, "changed_on_failure": changed}
    obs.update(Q.observe(cassis, ts, sc))          # the query battery (c10queries.py; shared with the sub-suite "xml")
    # the same identity requirement on the type system obtained by a descriptor round trip (the hierarchy queries on
    # loaded type systems are the subject of the sub-suite "xml"; a round trip that raises is not judged here)
    obs["ident_xml"] = []
    if sc.get("xml"):
        try:
            ts2 = cassis.load_typesystem(ts.to_xml())
        except Exception as e:  # noqa
            ts2 = None
            obs["xml_skipped"] = type(e).__name__
        if ts2 is not None:
            obs["ident_xml"] = T.identity_failures(ts2)[:5]
    return obs


# ---------------------------------------------------------------------------------------------- oracle
_iio_expect = Q.iio_expect


def oracle(cassis, sc, obs):
    tree = Tree()
    for i, (op, out) in enumerate(zip(sc["ops"], obs["out"])):
        allowed = tree.apply(op, out)
        if out not in allowed:
            return f"outcome: operation {i} {json.dumps(op)} gave {out}, the property allows {sorted(allowed)}"
    if obs["changed_on_failure"]:
        i = obs["changed_on_failure"][0]
        return f"unchanged: refused operation {i} {json.dumps(sc['ops'][i])} changed the type system"
    msg = Q.judge(tree, sc, obs, exact_order=True)
    if msg:
        return msg
    if obs["ident_xml"]:
        return "identity: after load_typesystem(ts.to_xml()): " + obs["ident_xml"][0]
    return None


# ---------------------------------------------------------------------------------------------- Gallina
def render(sc, obs):
    return Q.render_case(sc["ops"], obs["out"], sc, obs, len(T.BUILTIN_NAMES), not obs["ident"] and not obs["ident_xml"])


def nontrivial(sc):
    tree = Tree()
    refused = False
    for op in sc["ops"]:
        allowed = tree.apply(op, "ok")
        if "ok" not in allowed:
            refused = True
    users = [n for n in tree.sup if n not in T.BUILTIN_NAMES]
    return refused or any(tree.sup[u] in users for u in users)


def shrink_candidates(sc):
    ops = sc["ops"]
    n = len(ops)
    chunk = max(1, n // 2)
    while chunk >= 1:
        for i in range(0, n, chunk):
            cand = T.clone(sc)
            cand["ops"] = ops[:i] + ops[i + chunk:]
            if len(cand["ops"]) < n:
                yield cand
        if chunk == 1:
            break
        chunk //= 2
    if len(sc["names"]) > 2:
        for i in range(len(sc["names"])):
            cand = T.clone(sc)
            cand["names"] = sc["names"][:i] + sc["names"][i + 1:]
            yield cand


def mutate(sc, rng):
    for _ in range(10):
        c = T.clone(sc)
        if c["ops"]:
            c["ops"].insert(rng.randint(0, len(c["ops"])), dict(rng.choice(ALPHABET)))
        yield c


def signature(sc, msg):
    return {"what": msg.split(":")[0] if msg else ""}


def distribution(scenarios, observations):
    outs = {}
    for o in observations:
        if o:
            for x in o["out"]:
                outs[x] = outs.get(x, 0) + 1
    depth = []
    n_pairs = judged = short_anc = unresolved = 0
    for s in scenarios:
        tree = Tree()
        for op in s["ops"]:
            tree.apply(op, "ok")
        depth.append(max([len(tree.ancestors(n)) for n in tree.sup]))
        for x, y in s["pairs"]:
            n_pairs += 1
            want = _iio_expect(tree, x, y)
            judged += want is not None
            tx, ty = tree.resolve(x), tree.resolve(y)
            short_anc += bool(want == {"ok": True} and x != tx and tx != ty)
            unresolved += bool(want == {"err": "ETypeNotFound"})
    return {"cases": len(scenarios), "operations": sum(len(s["ops"]) for s in scenarios), "outcomes": outs,
            "max_depth_below_TOP": max(depth or [0]), "cases_depth_ge_5": sum(1 for d in depth if d >= 5),
            "pairs_queried": sum(len(o["names"]) ** 2 for o in observations if o),
            "lookups": sum(len(s["lookups"]) for s in scenarios),
            "name_pairs": n_pairs, "name_pairs_judged_by_oracle": judged,
            "is_instance_of_short_named_proper_ancestor": short_anc, "is_instance_of_unresolved_name": unresolved,
            "ambiguous_lookups": sum(1 for s, o in zip(scenarios, observations) if o for x, g in zip(s["lookups"], o["get"])
                                     if g is None and "." not in x and x in ("A", "T0", "T1", "U0", "U1", "V0", "W0"))}


_tree_failures = C10merge.tree_failures


def merge_tree_obligation(cassis, rng, n):
    """Type systems obtained by merging (the merge rules themselves are C13's subject): whatever merge_typesystems
    returns must be one tree.  Directed at contradictory / re-parenting inputs; oracle only."""
    names = ["m.A", "m.B", "m.C", "m.D"]
    for k in range(n):
        parts = []
        for _ in range(rng.choice([2, 2, 3])):
            order = names[:]
            rng.shuffle(order)
            decl = []
            for i, nm in enumerate(order[:rng.randint(2, 4)]):
                decl.append([nm, rng.choice(["uima.tcas.Annotation", "uima.cas.TOP"] + [d[0] for d in decl])])
            parts.append(decl)
        if k % 3 == 0:  # the contradictory pair: each declares the other's subtype as supertype, below a common chain
            parts = [[["m.A", "uima.tcas.Annotation"], ["m.B", "m.A"], ["m.C", "m.B"]],
                     [["m.B", "uima.tcas.Annotation"], ["m.A", "m.B"]] if k % 2 else [["m.C", "uima.tcas.Annotation"], ["m.A", "m.C"]]]
        tss = []
        for decl in parts:
            ts = cassis.TypeSystem()
            for nm, sup in decl:
                ts.create_type(nm, sup)
            tss.append(ts)
        for perm in ([tss, tss[::-1]]):
            try:
                merged = cassis.merge_typesystems(*perm)
            except ValueError:
                continue
            bad = _tree_failures(merged)
            if bad:
                return ("merged type systems form one tree", False, bad[0], {"merge_inputs": parts, "reversed": perm is not tss})
    return (f"merged type systems form one tree ({n} merges of 2-3 inputs, both orders)", True, "ok", None)


def extra_checks(ctx):
    from harness import core
    return [T.observed_init_check(ctx["cassis"], ID),
            merge_tree_obligation(ctx["cassis"], ctx["rng"], 60 if ctx["tier"] == "quick" else 600)] \
        + core.run_subsuite(C10merge, ctx) + core.run_subsuite(C10xml, ctx)


MANIFEST = {
    "level_text": "Machine-checked proof (Coq 8.16) over an executable model of cassis/typesystem.py that an invariant WF (unique "
                  "names, TOP the only root, supertypes registered and acyclic through a ghost rank, c in children(p) iff "
                  "supertype(c) = p without duplicates, all feature references registered) holds initially and is preserved by every "
                  "create_type / create_feature / instantiation of every history, and that under WF children, descendants (with a "
                  "stated fuel bound), Type.subsumes (incl. the TOP shortcut), TypeSystem.subsumes and is_instance_of all decide the "
                  "declared supertype relation, get_type / contains_type resolve full and unique short names and fail otherwise, "
                  "final types cannot be subtyped and no name can be defined twice; refused operations change nothing. The invariant is "
                  "also proved for the closure `obtained` of TypeSystem() under histories, merge_typesystems (nested, extended, "
                  "one type system in several merges; on C13's model Merge.v) and load_typesystem of well-formed descriptors (on "
                  "C12's model Descr.v / DescrTS.v). The model is "
                  "tied to /repo on every run by evaluating it inside Coq on the histories the implementation was run on.",
    "level_note": "Trusted: Coq kernel + vm_compute; hand-written model coq/TS.v (types refer to each other by name; Python object "
                  "identity is observed with `is` by the harness, not modelled); the initial state is compared with the observed "
                  "TypeSystem() on every run; the XML reader's model is C12's, the JSON constructor is C02 (theorems are stated "
                  "for every WF ts); which inputs merge_typesystems must accept is C13. "
                  "Print Assumptions: closed under the global context.",
    "technique": "Coq proof over an executable Gallina model + in-Coq behavioural correspondence (exhaustive short histories, random deep trees)",
    "design_ref": "DESIGN.md section 5, C10",
}
