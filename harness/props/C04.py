"""C04 — written documents are complete, closed under reachability and faithful (XMI half)."""
import random

from harness import scen, xmlabs
from harness.props import xmicommon as xc

ID = "C04"
COQ_TARGETS = ["Lex.vo", "LexProofs.vo", "XmiDoc.vo", "Xmi.vo", "XmiProofs.vo", "ReachProofs.vo", "ReachSpec.vo", "XmiWf.vo", "XmiDocOk.vo",
               "CorrC04.vo", "XmiExample.vo", "Props/C04.vo", "JsonDoc.vo", "Json.vo", "JsonProofs.vo", "JsonProofs2.vo", "JsonLoadProofs.vo", "JsonLex.vo", "PropsJson.vo"]
PROPS_FILE = "Props/C04.v"
CORR_IMPORTS = "Base Heap Schema Canon XmiDoc Xmi CorrC04"
OPEN_SCOPES = ["Z_scope"]
ENTRY = "cassis.cas.Cas.to_xmi -> cassis.xmi.CasXmiSerializer.serialize / Cas._find_all_fs"
CASES_PER_SHARD = 40
SHARD_BYTES = 260_000
RULE = (
    "seeded random scenarios: a type system of 3-8 user types (deep hierarchies, a type without namespace, a user subtype of "
    "uima.cas.String, features of every primitive / array / list kind with multipleReferencesAllowed in {None, False, True}, "
    "FSArray / FSList / TOP-ranged / typed references, reserved names self/type, begin/end on non-annotations); in 75% of "
    "the cases the packages are renamed to colliding ones (a.type, b.type, c.type0, e.type00, x.cas, y.xmi, z.tcas, "
    "single-segment packages, equal last segments); a CAS of 1-3 views (empty / ASCII / BMP / astral text) with 1-10 "
    "(thorough: up to 40) structures plus their collection objects, null elements, empty collections, shared "
    "collections, cycles; in half of the cases only a third of the roots stay indexed so that the rest is reachable only "
    "through references, FSArray / FSList elements or TOP features; in 30% some non-indexed structures have no id. "
    "On top (xmicommon.widen, own random streams): in 40% one more feature name is declared on 2-3 types that are not "
    "ancestors of one another, each with another range / multipleReferencesAllowed (string, primitive and FS arrays and lists, "
    "primitives, TOP), and the structures of these types get values; in 45% collections sit where ordinary structures do: an "
    "FSArray (sometimes a primitive array or an FSList) as the value of a TOP-ranged feature, as the head of an FSList node or "
    "nested (up to depth 3) in an FSArray whose holders do not restrict the element type, its elements preferably not indexed, "
    "the same collection now and then at two places. "
    "Fourth wave (own streams again): in 25% the explicit ids are renumbered to the dense block right above the sofa ids, the "
    "largest one (or every one, in add order) being added exactly when it is the id the generator would hand out next (15%: "
    "one above), and a sofa holds a byte array without id that is neither indexed nor referenced, so that ids are still "
    "drawn while the document is written; in 30% some of the indexed structures are taken over from another CAS: created "
    "without a sofa, indexed in a view of a second CAS (mostly a view whose sofa id no sofa of the CAS under test has) "
    "and then added to their view of the CAS under test. "
    "A case is non-trivial when it has >= 2 structures and a reference or collection slot is set."
)
TRUSTED = [
    "Coq 8.16.1 kernel and vm_compute; theorems in Props/C04.v are closed under the global context or depend only on the "
    "section premises listed there (float printing/parsing contract flt_rt/flt_tok)",
    "hand-written models: coq/Reach.v (_find_all_fs), coq/Xmi.v (writer, canonical content), coq/XmiDoc.v (abstract "
    "documents, the denotation = the independent reader of the format), coq/Lex.v, coq/Offsets.v",
    "xml.etree.ElementTree as the namespace-aware XML parser producing the abstract document (harness/xmlabs.py); XML "
    "escaping and prefix spelling are lxml's / the parser's and sit below the abstract document",
    "harness/scen.py: builders through the public API, independent schema_of, canonical observation canon() of the "
    "in-memory CAS by identity-based traversal (never _find_all_fs / to_* / typecheck)",
    "Python repr(float) / float(str) (shortest round-tripping literal), used to build the literal table the Coq side "
    "looks floats up in; contract checked on every case",
    "ids of structures that had none are read from the objects after the save and given to the model (id generation "
    "order depends on id() among ties and belongs to C09/C14)",
]
ASSUMPTIONS = [
    "input CAS inside wf_inb (Xmi.v; nothing about the written set is assumed, that part is derived from the traversal): "
    "references live, arrays have a list in `elements`, slots hold values of the declared kind, inline lists are "
    "tail-acyclic, annotations carry the sofa of a view of this CAS and valid offsets, explicit ids distinct, not 0, below "
    "the id generator and apart from sofa ids, sofa arrays are primitive arrays, only AnnotationBase subtypes have a feature "
    "called sofa, type names round-trip through the namespace mapping",
    "ranges that are user subtypes of primitives other than uima.cas.String are outside the scope",
]


def generate(rng, tier):
    cassis = _load()
    n = {"quick": 200, "thorough": 2500, "search": 3000}[tier]
    for _ in range(n):
        seed = rng.getrandbits(48)
        yield xc.widen(seed, cassis, xc.gen_scenario(random.Random(seed), cassis, tier))


def _load():
    """the cassis module the engine has imported from the tree under test (core.load_impl)"""
    import sys
    if "cassis" not in xc.STATE:
        if "cassis" not in sys.modules:
            from harness import core
            core.load_impl()
        xc.STATE["cassis"] = sys.modules["cassis"]
    return xc.STATE["cassis"]


def run_impl(cassis, sc):
    xc.STATE["cassis"] = cassis
    _ts, cas, _views, objs = xc.build(cassis, sc)
    sofas = [[s.xmiID, s.sofaNum] for s in cas.sofas]
    xmi = cas.to_xmi()
    doc = xmlabs.parse(xmi)
    ids = {l: o.xmiID for l, o in objs.items()}
    try:
        cc = scen.canon(cas, "xmi")
    except RuntimeError as e:          # the id-keyed observation does not exist: two reachable structures carry one id
        return {"doc": doc, "canon": None, "canon_error": str(e), "ids": ids, "sofas": sofas}
    return {"doc": doc, "canon": cc, "ids": ids, "sofas": sofas}


def oracle(cassis, sc, obs):
    msg = xc.float_contract(sc["cas"])
    if msg:
        return "float contract: " + msg
    root = obs["doc"]["root"]
    if (root["ns"], root["tag"]) != (xmlabs.NS_XMI, "XMI"):
        return f"root element is {{{root['ns']}}}{root['tag']}"
    if obs["canon"] is None:
        return "closed: " + (xc.duplicate_ids(obs["doc"]) or "") + " [in memory after the save: " + obs["canon_error"] + "]"
    msg = xc.check_closed(obs["doc"], obs["canon"])
    if msg:
        return "closed: " + msg
    explicit = {o["o"]: o["id"] for o in sc["cas"]["objs"] if o["id"] is not None}
    for l, i in explicit.items():
        if obs["ids"][l] != i:
            return f"ids: structure {l} had id {i}, after the save it has {obs['ids'][l]}"
    schema = scen.schema_of(cassis, sc["ts"])
    msg = xc.check_faithful(obs["doc"], obs["canon"], schema)
    if msg:
        return "faithful: " + msg
    return None


def render(sc, obs):
    if obs["canon"] is None:
        return None
    cassis = xc.STATE["cassis"]
    schema, names = xc.schema_and_names(cassis, sc)
    return "mkCase\n %s\n (%s)\n %s\n %s\n (%s)" % (
        scen.g_schema(schema, names), xc.g_cas(sc["cas"], obs["ids"], obs["sofas"]), xc.g_ftab(sc["cas"]),
        xmlabs.g_xdoc(obs["doc"]), scen.g_ccas(obs["canon"]))


nontrivial = xc.nontrivial
shrink_candidates = xc.shrink_candidates


def signature(sc, msg):
    return {"what": (msg or "").split(":")[0]}


def distribution(scenarios, observations):
    d = xc.stats(scenarios)
    d["elements_written"] = sum(len(o["doc"]["elems"]) for o in observations if o)
    d["cases_same_feature_name_on_unrelated_types"] = sum(1 for sc in scenarios if sc.get("knobs", {}).get("same_name"))
    d["cases_collections_as_reference_targets"] = sum(1 for sc in scenarios if sc.get("knobs", {}).get("coll_targets"))
    d["cases_ids_at_the_generator_edge"] = sum(1 for sc in scenarios if sc.get("knobs", {}).get("edge_ids"))
    d["cases_structures_taken_over_from_another_cas"] = sum(1 for sc in scenarios if sc.get("knobs", {}).get("taken_over"))
    return d


# ---- JSON half of C04: a sub-suite with its own case type (harness/props/C04json.py, coq/CorrC04json.v) ----
from harness.props import C04json  # noqa: E402
SUBSUITES = {"json": C04json}


def extra_checks(ctx):
    from harness import core
    return core.run_subsuite(C04json, ctx)


MANIFEST = {
    "level_text": "Machine-checked proof (Coq 8.16) about an executable model of the XMI writer (worklist of _find_all_fs, "
                  "per-feature-kind encoders in the writer's branch order, offset mapping, namespace/prefix allocation, "
                  "sofas, views) that for every well-formed input CAS the document it writes is closed (doc_ok_xmi), "
                  "complete (every structure reachable through the declarative successor relation is present exactly "
                  "once) and, read by a declarative denotation of the UIMA XMI format (the independent reader, in Coq), "
                  "is the canonical content of the CAS; the facts about the written set are derived from the reachability "
                  "theorems, the premise speaks about the input only; the model is tied to /repo on "
                  "every run: the bytes of to_xmi() are parsed with xml.etree and, inside Coq, checked for closedness, "
                  "denoted and compared with the content observed from the in-memory CAS and with the model writer's document.",
    "level_note": "Both halves: XMI cases in the main suite, JSON cases in the sub-suite C04json (own case type, theorems C04_json_* in the same Props file). Trusted: Coq kernel + vm_compute; models "
                  "Reach.v/Xmi.v/XmiDoc.v/Lex.v/Offsets.v; xml.etree; harness/scen.py observation; float literal contract.",
    "technique": "Coq proof over an executable Gallina model + in-Coq behavioural correspondence and in-Coq independent reader",
    "design_ref": "DESIGN.md section 5, C04; section 4.4",
}
