"""The query battery of C10, shared by the main suite (C10.py: histories on a fresh TypeSystem()) and the sub-suite "xml"
(C10xml.py: type systems obtained by load_typesystem): what is asked of a live TypeSystem, what the property demands of
the answers given the declared tree (tscommon.Tree: the oracle's own bookkeeping), and the Gallina fields of
CorrC10.case that carry the answers.

Query sets of a scenario: "names" (full names queried pairwise), "lookups" (strings for get_type / contains_type),
"pairs" ([parent, child] strings for ts.subsumes / is_instance_of)."""
from harness.gallina import gbool, glist, gn, gpair, gstr
from harness.props import tscommon as T
from harness.props.tscommon import gbits, gres_bool, gstrs


def _q(cassis, fn):
    try:
        return {"ok": bool(fn())}
    except Exception as e:  # noqa
        return {"err": T.err_kind(cassis, e)}


def observe(cassis, ts, sc):
    """every query of the battery on the live type system `ts`"""
    from cassis.typesystem import TypeNotFoundError
    order = [t.name for t in ts.get_types(built_in=True)]
    names = [n for n in sc["names"] if ts.contains_type(n, True)]
    ty = {n: ts.get_type(n) for n in names}
    obs = {"names": names, "order": order}
    obs["sub_ts"] = [bool(ts.subsumes(a, b)) for a in names for b in names]
    obs["sub_ty"] = [bool(ty[a].subsumes(ty[b])) for a in names for b in names]
    obs["sub_obj"] = [bool(ts.subsumes(ty[a], ty[b])) for a in names for b in names]
    obs["iio"] = [bool(ts.is_instance_of(b, a)) for a in names for b in names]
    obs["iio_obj"] = [bool(ts.is_instance_of(ty[b], ty[a])) for a in names for b in names]
    obs["super"] = [ty[n].supertype.name if ty[n].supertype is not None else None for n in names]
    obs["children"] = [sorted(c.name for c in ty[n].children) for n in names]
    obs["desc"] = [sorted(d.name for d in ty[n].descendants) for n in names]
    obs["prim"] = [bool(ts.is_primitive(n)) for n in names]
    get = []
    for s in sc["lookups"]:
        try:
            get.append(ts.get_type(s).name)
        except TypeNotFoundError:
            get.append(None)
    obs["get"] = get
    obs["contains"] = [bool(ts.contains_type(s)) for s in sc["lookups"]]
    obs["contains_exact"] = [bool(ts.contains_type(s, True)) for s in sc["lookups"]]
    obs["pairs_sub"] = [_q(cassis, lambda: ts.subsumes(x, y)) for x, y in sc["pairs"]]
    # is_instance_of(child, parent) with the names as given (full, short, ambiguous, unknown) ...
    obs["pairs_iio"] = [_q(cassis, lambda: ts.is_instance_of(y, x)) for x, y in sc["pairs"]]
    # ... and with one side passed as the registered Type object (found by scanning get_types, not through get_type)
    by_name = {t.name: t for t in ts.get_types(built_in=True)}
    obs["pairs_iio_objchild"] = [_q(cassis, lambda: ts.is_instance_of(by_name[y], x)) if y in by_name else None
                                 for x, y in sc["pairs"]]
    obs["pairs_iio_objparent"] = [_q(cassis, lambda: ts.is_instance_of(y, by_name[x])) if x in by_name else None
                                  for x, y in sc["pairs"]]
    obs["ident"] = T.identity_failures(ts)[:5]
    return obs


def iio_expect(tree, x, y):
    """What the property demands of is_instance_of(child=y, parent=x) for two strings: the answer of the declared tree on the
    types the names resolve to (full name, else unique short name), TypeNotFoundError when one of them does not resolve.
    None = no demand: the string comparisons the code makes before any lookup (see C10.ASSUMPTIONS) decide these."""
    tx, ty = tree.resolve(x), tree.resolve(y)
    if x == y:
        return {"ok": True} if tx is not None else None
    if y == T.TOP:
        return {"ok": False} if tx is not None and tx != T.TOP else None
    if ty is None or tx is None:
        return {"err": "ETypeNotFound"}
    if tx == ty or ty == T.TOP:
        return None
    return {"ok": tree.subsumes(tx, ty)}


def judge(tree, sc, obs, exact_order=True):
    """the property statement on one observed type system whose declared tree is `tree`; exact_order: the registry must
    list the declared types in creation order (histories), else as a set without repetition (loading creates the types in
    an order of its own choice)"""
    if exact_order:
        if obs["order"] != list(tree.sup):
            return (f"registry: get_types(built_in=True) differs from the declared types in creation order: unexpected "
                    f"{sorted(set(obs['order']) - set(tree.sup))[:5]}, missing {sorted(set(tree.sup) - set(obs['order']))[:5]}")
    elif sorted(obs["order"]) != sorted(tree.sup):
        return (f"registry: registered types differ from the declared ones: unexpected "
                f"{sorted(set(obs['order']) - set(tree.sup))[:5]}, missing {sorted(set(tree.sup) - set(obs['order']))[:5]}, "
                f"listed twice {sorted({n for n in obs['order'] if obs['order'].count(n) > 1})[:3]}")
    names = [n for n in sc["names"] if n in tree.sup]
    if names != obs["names"]:
        return f"registry: contains_type(exact) disagrees on {sorted(set(names) ^ set(obs['names']))[:5]}"
    exp = [tree.subsumes(a, b) for a in names for b in names]
    for key, what in (("sub_ts", "ts.subsumes(names)"), ("sub_ty", "Type.subsumes"), ("sub_obj", "ts.subsumes(types)"),
                      ("iio", "is_instance_of(names)"), ("iio_obj", "is_instance_of(types)")):
        if obs[key] != exp:
            k = [i for i, (x, y) in enumerate(zip(obs[key], exp)) if x != y][0]
            a, b = names[k // len(names)], names[k % len(names)]
            return f"subsumes: {what} says {obs[key][k]} for ancestor={a} descendant={b}, the declared tree says {exp[k]}"
    for i, n in enumerate(names):
        if obs["super"][i] != tree.sup[n]:
            return f"supertype: {n}.supertype is {obs['super'][i]}, declared {tree.sup[n]}"
        if obs["children"][i] != tree.children(n):
            return f"children: {n}.children = {obs['children'][i][:8]}, types declaring it as supertype: {tree.children(n)[:8]}"
        if obs["desc"][i] != tree.subtree(n):
            return f"descendants: {n}.descendants = {obs['desc'][i][:8]}, subtree in the declared relation: {tree.subtree(n)[:8]}"
        if obs["prim"][i] != tree.is_primitive(n):
            return f"is_primitive: {n} gives {obs['prim'][i]}"
    for s, g, c, ce in zip(sc["lookups"], obs["get"], obs["contains"], obs["contains_exact"]):
        want = tree.resolve(s)
        if g != want:
            return f"get_type: get_type({s!r}) gave {g}, expected {want}"
        if c != (want is not None):
            return f"contains_type: contains_type({s!r}) gave {c}"
        if ce != (s in tree.sup):
            return f"contains_type: contains_type({s!r}, True) gave {ce}"
    for (x, y), r in zip(sc["pairs"], obs["pairs_sub"]):
        tx, ty_ = tree.resolve(x), tree.resolve(y)
        want = {"err": "ETypeNotFound"} if tx is None or ty_ is None else {"ok": tree.subsumes(tx, ty_)}
        if r != want:
            return f"subsumes: ts.subsumes({x!r}, {y!r}) gave {r}, expected {want}"
    for k, (x, y) in enumerate(sc["pairs"]):
        want = iio_expect(tree, x, y)
        if want is None:
            continue
        for key, what in (("pairs_iio", f"is_instance_of({y!r}, {x!r})"), ("pairs_iio_objchild", f"is_instance_of(<Type {y}>, {x!r})"),
                          ("pairs_iio_objparent", f"is_instance_of({y!r}, <Type {x}>)")):
            r = obs[key][k]
            if r is not None and r != want:
                return (f"is_instance_of: {what} gave {r}; get_type resolves the parent to {tree.resolve(x)} and the child to "
                        f"{tree.resolve(y)}, the declared tree demands {want} (ts.subsumes({x!r}, {y!r}) gave {obs['pairs_sub'][k]})")
    if obs["ident"]:
        return "identity: " + obs["ident"][0]
    return None


def render_case(ops, outs, sc, obs, n_base, ident_ok):
    """Gallina term of type CorrC10.case; n_base = number of types the type system started with"""
    pos = {n: i for i, n in enumerate(obs["order"])}

    def gmask(l):
        v = 0
        for n in set(l):
            v |= 1 << pos.get(n, 200)
        return gn(v)

    def gidx(n):
        return gn(0 if n is None else pos.get(n, 200) + 1)

    parts = [
        glist([T.gop(o) for o in ops]),
        glist([T.gout(o) for o in outs]),
        gstrs(obs["order"][n_base:]),
        gstrs(obs["names"]),
        gbits(obs["sub_ts"]), gbits(obs["sub_ty"]), gbits(obs["iio"]),
        glist([gidx(s) for s in obs["super"]]),
        glist([gmask(l) for l in obs["children"]]),
        glist([gmask(l) for l in obs["desc"]]),
        glist([gn(len(l)) for l in obs["desc"]]),
        gbits(obs["prim"]),
        gstrs(sc["lookups"]),
        glist([gidx(s) for s in obs["get"]]),
        gbits(obs["contains"]), gbits(obs["contains_exact"]),
        glist([gpair(gstr(x), gstr(y)) for x, y in sc["pairs"]]),
        glist([gres_bool(r) for r in obs["pairs_sub"]]),
        glist([gres_bool(r) for r in obs["pairs_iio"]]),
        gbool(ident_ok),
    ]
    return "mkCase " + " ".join(f"({p})" for p in parts)
