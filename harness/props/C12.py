"""C12 — type system XML round trip preserves every declaration, in any declaration order."""
import io
import json
import xml.etree.ElementTree as ET

from harness.gallina import gbool, glist, gnat, gstr

ID = "C12"
COQ_TARGETS = ["Descr.vo", "DescrProofs.vo", "DescrProofs2.vo", "DescrProofs3.vo", "TS.vo", "TSProofs.vo", "DescrTS.vo",
               "DescrTSProofs.vo", "CorrC12.vo", "Props/C12.vo"]
PROPS_FILE = "Props/C12.v"
CORR_IMPORTS = "Base Descr CorrC12"
OPEN_SCOPES = ["string_scope", "list_scope"]
SHARD_BYTES = 150_000
ENTRY = "cassis.typesystem.TypeSystem.to_xml (TypeSystemSerializer) / load_typesystem (TypeSystemDeserializer)"
RULE = (
    "One table case (fresh TypeSystem() built-ins and probed final types against the table of coq/Descr.v), then seeded "
    "type systems of 0-7 user types (trees under built-in supertypes, DocumentAnnotation and earlier user types; names "
    "with, without and with nested namespaces and colliding short names; feature ranges over every built-in and every "
    "user type, later ones included; elementType; multipleReferencesAllowed None/true/false; features self/type/self_; "
    "descriptions None, empty, blank, padded, non-ASCII, with markup characters; features added to DocumentAnnotation; in "
    "20% a DocumentAnnotation of the type system's own -- TypeSystem(add_document_annotation_type=False) + create_type at any "
    "admissible place, own description and supertype, own features: none at all (a third of them), with or without "
    "`language`, `language` of any range; a quarter of them nearly the implicit one: only a feature `language`, differing "
    "in 0-3 of description, supertype, range, flag, element type, feature description -- which is also what the harness-written descriptors then redeclare) "
    "built through the API in a shuffled create_feature order. Per type system: to_xml() lifted with xml.etree and "
    "compared with the model; the round trip load(to_xml()); and three descriptors written by the harness's own writer "
    "from a pool of declarations (identity order; a random permutation with identically / acceptably redeclared "
    "built-ins; children-before-parents order, in 30% with one built-in redeclared differently), names and references "
    "padded with white space in a third of the scenarios. In 40% of the scenarios a fourth descriptor outside the "
    "well-formed ones: all user declarations shuffled plus one more type that redefines an inherited feature equally "
    "(must load, the redefinition dropped) or differently (ValueError), refers to an undeclared range / element / supertype "
    "(KeyError) or inherits from a final array type (ValueError). Every distinct successful dump is also replayed in the "
    "hierarchy model TS.v (create_type in creation order, then create_feature) and read back. quick 600 type systems, "
    "thorough 6000. A case is non-trivial when a run puts a subtype before its supertype or redeclares a built-in."
)
TRUSTED = [
    "Coq 8.16.1 kernel and vm_compute; theorems in Props/C12.v are closed under the global context",
    "hand-written model coq/Descr.v of TypeSystemSerializer, TypeSystemDeserializer, create_type, create_feature/_add_feature",
    "toposort_flatten (external library) is a parameter `order` constrained by its contract order_okb; the order the "
    "implementation really used is observed (dict order of the loaded type system) and checked against the contract on every run",
    "byte layer (lxml escaping, namespaces, layout) is not modelled: bytes are lifted to abstract descriptors with xml.etree only; "
    "byte-for-byte re-emission is checked by the oracle on the implementation",
    "built-in table of coq/Descr.v is compared in Coq with a fresh TypeSystem() on every run (CaseTable)",
    "str.strip modelled for ASCII white space; Python's sorted on str = byte order of UTF-8",
    "inherited features at the time a type receives its own = all features of its supertype chain (holds because features "
    "are added in creation order, parents first); TypeSystem._predefined_types and Feature._has_reserved_name are read for the dump",
    "hand-written hierarchy model coq/TS.v (C10/C11) for the embedding theorems C12_loaded_WF / C12_embedding_ok; its create_type / "
    "create_feature are evaluated in Coq on every distinct loaded content and read back against the implementation's dump",
]
ASSUMPTIONS = [
    "the type system has a DocumentAnnotation (the TypeSystem() default, possibly extended, or one created by the user on "
    "TypeSystem(add_document_annotation_type=False), declared in any way); type names are unique, non-empty, trimmed",
    "no feature is declared again along a supertype chain; references are closed; no inheritance from final array types",
    "identifiers and descriptions do not begin or end with non-ASCII white space; descriptions survive up to strip() and \"\" = absent",
    "every typeDescription has a name with text, and (general theorems) the names are distinct after trimming",
]

DOCANN = "uima.tcas.DocumentAnnotation"
ANN = "uima.tcas.Annotation"
NS = "http://uima.apache.org/resourceSpecifier"

# the harness's own copy of the built-in declarations (name, supertype, [(feature, range, multi)]); compared with the
# implementation through CaseTable (in Coq) and used only to write redundant redeclarations
BUILTINS = [
    ("uima.cas.TOP", "", []), ("uima.cas.NULL", "uima.cas.TOP", []), ("uima.cas.Boolean", "uima.cas.TOP", []),
    ("uima.cas.Byte", "uima.cas.TOP", []), ("uima.cas.Short", "uima.cas.TOP", []), ("uima.cas.Integer", "uima.cas.TOP", []),
    ("uima.cas.Long", "uima.cas.TOP", []), ("uima.cas.Float", "uima.cas.TOP", []), ("uima.cas.Double", "uima.cas.TOP", []),
    ("uima.cas.String", "uima.cas.TOP", []),
    ("uima.cas.ArrayBase", "uima.cas.TOP", [("elements", "uima.cas.TOP", True)]),
    ("uima.cas.FSArray", "uima.cas.ArrayBase", []), ("uima.cas.BooleanArray", "uima.cas.ArrayBase", []),
    ("uima.cas.ByteArray", "uima.cas.ArrayBase", []), ("uima.cas.ShortArray", "uima.cas.ArrayBase", []),
    ("uima.cas.LongArray", "uima.cas.ArrayBase", []), ("uima.cas.DoubleArray", "uima.cas.ArrayBase", []),
    ("uima.cas.FloatArray", "uima.cas.ArrayBase", []), ("uima.cas.IntegerArray", "uima.cas.ArrayBase", []),
    ("uima.cas.StringArray", "uima.cas.ArrayBase", []), ("uima.cas.ListBase", "uima.cas.TOP", []),
    ("uima.cas.FSList", "uima.cas.ListBase", []), ("uima.cas.EmptyFSList", "uima.cas.FSList", []),
    ("uima.cas.NonEmptyFSList", "uima.cas.FSList", [("head", "uima.cas.TOP", True), ("tail", "uima.cas.FSList", True)]),
    ("uima.cas.FloatList", "uima.cas.ListBase", []), ("uima.cas.EmptyFloatList", "uima.cas.FloatList", []),
    ("uima.cas.NonEmptyFloatList", "uima.cas.FloatList", [("head", "uima.cas.Float", None), ("tail", "uima.cas.FloatList", True)]),
    ("uima.cas.IntegerList", "uima.cas.ListBase", []), ("uima.cas.EmptyIntegerList", "uima.cas.IntegerList", []),
    ("uima.cas.NonEmptyIntegerList", "uima.cas.IntegerList", [("head", "uima.cas.Integer", None), ("tail", "uima.cas.IntegerList", True)]),
    ("uima.cas.StringList", "uima.cas.ListBase", []), ("uima.cas.EmptyStringList", "uima.cas.StringList", []),
    ("uima.cas.NonEmptyStringList", "uima.cas.StringList", [("head", "uima.cas.String", None), ("tail", "uima.cas.StringList", True)]),
    ("uima.cas.Sofa", "uima.cas.TOP", [("sofaNum", "uima.cas.Integer", None), ("sofaID", "uima.cas.String", None),
                                       ("mimeType", "uima.cas.String", None), ("sofaArray", "uima.cas.TOP", True),
                                       ("sofaString", "uima.cas.String", None), ("sofaURI", "uima.cas.String", None)]),
    ("uima.cas.AnnotationBase", "uima.cas.TOP", [("sofa", "uima.cas.Sofa", None)]),
    (ANN, "uima.cas.AnnotationBase", [("begin", "uima.cas.Integer", None), ("end", "uima.cas.Integer", None)]),
]
BI = {n: (s, fs) for n, s, fs in BUILTINS}
BI_NAMES = [n for n, _s, _f in BUILTINS]
FINAL = ["uima.cas.BooleanArray", "uima.cas.ByteArray", "uima.cas.DoubleArray", "uima.cas.FloatArray",
         "uima.cas.IntegerArray", "uima.cas.LongArray", "uima.cas.ShortArray", "uima.cas.StringArray"]
SUPERS = [ANN] * 6 + ["uima.cas.TOP", "uima.cas.TOP", "uima.cas.AnnotationBase", "uima.cas.FSList", "uima.cas.NonEmptyFSList",
                      "uima.cas.FSArray", "uima.cas.Sofa", "uima.cas.String", "uima.cas.ListBase", DOCANN, DOCANN]
NAMESPACES = ["a", "a", "b", "a.b", "z", "v.w", "", "uima.tcas", "Z"]
SHORTS = ["T0", "T1", "T2", "T3", "Token", "X", "t0", "Annotation"]
FNAMES = ["f0", "f1", "f2", "f3", "self", "type", "self_", "language", "value", "F0"]
DESCRS = [None, None, None, "plain", "two words", " lead", "trail ", "  both \n", "   ", "", "ümläut €",
          "a <b> & \"c\" 'd'", "multi\nline", "x"]
WS = [" ", "\n", "\t", "  ", "\n    "]
# variants of a redeclared built-in: the first group must be accepted, the second rejected with ValueError
BI_OK = ["same", "same", "same", "featorder", "elemtop", "tdescr", "multinone"]
BI_BAD = ["super", "range", "elem", "extra", "missing", "fdescr", "multi", "fname"]


# ------------------------------------------------------------------------------------------------ scenarios


def _ancestors_names(sc_types, docann_feats, tname):
    """Python-level feature names taken along the user part of the supertype chain of tname (exclusive)."""
    by = {t["n"]: t for t in sc_types}
    taken = set()
    cur = by[tname]["s"] if tname in by else None
    while cur is not None:
        if cur == DOCANN:
            # (`language` stays reserved below an own DocumentAnnotation that has none: fewer names, nothing else)
            taken |= {"language"} | {_py(f["n"]) for f in docann_feats}
            break
        if cur in by:
            taken |= {_py(f["n"]) for f in by[cur]["f"]}
            cur = by[cur]["s"]
        else:
            break
    return taken


def _py(n):
    return n + "_" if n in ("self", "type") else n


def _gen_feat(rng, names, taken, all_types):
    cands = [n for n in FNAMES if _py(n) not in taken]
    if not cands:
        return None
    n = rng.choice(cands)
    taken.add(_py(n))
    k = rng.random()
    if k < 0.45 and all_types:
        r = rng.choice(all_types)
    elif k < 0.55:
        r = DOCANN
    else:
        r = rng.choice(BI_NAMES)
    e = None
    if r in ("uima.cas.FSArray", "uima.cas.FSList") and rng.random() < 0.7 or rng.random() < 0.05:
        e = rng.choice(all_types + ["uima.cas.TOP", ANN, DOCANN]) if rng.random() < 0.8 else rng.choice(BI_NAMES)
    return {"n": n, "d": rng.choice(DESCRS), "r": r, "e": e, "m": rng.choice([None, None, True, False])}


OWN_SUPERS = [ANN] * 8 + ["uima.cas.AnnotationBase", "uima.cas.TOP"]


def _da_feats(sc):
    """the own features of DocumentAnnotation as declared: `language` first unless the type system brings its own one"""
    return ([] if sc.get("own") else [LANG]) + sc["da"]


def _da_default(sc):
    """the DocumentAnnotation of the scenario is declared exactly like the implicitly added one (the only one the writer
    may leave out): no description, supertype Annotation, one feature language : String and nothing else"""
    own = sc.get("own")
    return (not own or (own["d"] is None and own["s"] == ANN)) and _da_feats(sc) == [LANG]


def _gen_own(rng, types, names):
    """A DocumentAnnotation that the type system declares itself (TypeSystem(add_document_annotation_type=False) +
    create_type): its own description and supertype, its own features -- none at all in a third of the cases, with or
    without `language`, `language` anywhere and of any range.  In a quarter it is NEARLY the implicit one: only a feature
    `language`, and zero to three differences among description, supertype, range, flag, element type, description of
    the feature (zero: declared exactly like the implicit one).  `at` = how many user types are created before it."""
    first = min([i for i, t in enumerate(types) if t["s"] == DOCANN] or [len(types)])
    at = rng.randint(0, first)
    if rng.random() < 0.25:
        own, f = {"d": None, "s": ANN, "at": at}, dict(LANG)
        for how in rng.sample(["d", "s", "r", "m", "e", "fd"], rng.choice([0, 1, 1, 1, 2, 3])):
            if how == "d":
                own["d"] = rng.choice([d for d in DESCRS if d is not None])
            elif how == "s":
                own["s"] = rng.choice(["uima.cas.AnnotationBase", "uima.cas.TOP"])
            elif how == "r":
                f["r"] = rng.choice(["uima.cas.Integer", "uima.cas.Integer", "uima.cas.StringArray", ANN] + names)
            elif how == "m":
                f["m"] = rng.choice([True, False])
            elif how == "e":
                f["e"] = rng.choice(["uima.cas.TOP", ANN])
            else:
                f["d"] = rng.choice([d for d in DESCRS if d is not None])
        return own, [f]
    taken, feats = set(), []
    for _ in range(rng.choice([0, 0, 0, 1, 1, 2, 3])):
        f = _gen_feat(rng, names, taken, names)
        if f:
            feats.append(f)
    return {"d": rng.choice(DESCRS), "s": rng.choice(OWN_SUPERS), "at": at}, feats


def _gen_ts(rng, big=False, own=False):
    nt = rng.choice([0, 1, 2, 2, 3, 3, 4, 5, 6, 7]) if not big else rng.randint(8, 40)
    names = []
    while len(names) < nt:
        ns, sh = rng.choice(NAMESPACES), rng.choice(SHORTS) if not big else "T%d" % rng.randint(0, 60)
        n = (ns + "." + sh) if ns else sh
        if n not in names and n not in BI and n != DOCANN:
            names.append(n)
    types = []
    for i, n in enumerate(names):
        s = rng.choice(names[:i]) if i and rng.random() < 0.55 else rng.choice(SUPERS)
        types.append({"n": n, "d": rng.choice(DESCRS), "s": s, "f": []})
    dfe, ownd = [], None
    if own:
        ownd, dfe = _gen_own(rng, types, names)
    elif rng.random() < 0.4:
        taken = {"language"}
        for _ in range(rng.choice([1, 1, 2])):
            f = _gen_feat(rng, names, taken, names)
            if f:
                dfe.append(f)
    for t in types:
        taken = _ancestors_names(types, dfe, t["n"])
        for _ in range(rng.choice([0, 1, 1, 2, 3])):
            f = _gen_feat(rng, names, taken, names)
            if f:
                t["f"].append(f)
    # global order of the create_feature calls (keeps the per-type order)
    calls = [(t["n"], j) for t in types for j in range(len(t["f"]))] + [(DOCANN, j) for j in range(len(dfe))]
    keys = sorted(range(len(calls)), key=lambda _i: rng.random())
    seq, nxt = [], {}
    for i in keys:
        tn = calls[i][0]
        j = nxt.get(tn, 0)
        nxt[tn] = j + 1
        seq.append([tn, j])
    return types, dfe, seq, ownd


def _bi_entry(rng, ok):
    with_feats = [n for n in BI_NAMES if BI[n][1]]
    name = rng.choice(with_feats) if rng.random() < 0.6 else rng.choice([n for n in BI_NAMES if n != "uima.cas.TOP"])
    var = rng.choice(BI_OK if ok else BI_BAD)
    fs = BI[name][1]
    if var in ("featorder",) and len(fs) < 2:
        var = "same"
    if var in ("elemtop", "multinone", "range", "elem", "missing", "fdescr", "multi", "fname") and not fs:
        var = "same" if ok else "extra"
    if var == "multinone" and all(m for _n, _r, m in fs):
        var = "same"
    return {"name": name, "var": var}


XNAME = "x.Sub"
LANG = {"n": "language", "d": None, "r": "uima.cas.String", "e": None, "m": None}
BEGIN = {"n": "begin", "d": None, "r": "uima.cas.Integer", "e": None, "m": None}


def _gen_extra(rng, types, dfe, own=None):
    kind = rng.choice(["redef_eq", "redef_eq", "redef_eq", "redef_diff", "redef_diff", "range", "elem", "super", "final"])
    fresh = {"n": "zz", "d": rng.choice([None, "fresh"]), "r": "uima.cas.String", "e": None, "m": None}
    if kind in ("redef_eq", "redef_diff"):
        cands = [(t["n"], f) for t in types for f in t["f"]] + [(DOCANN, f) for f in dfe] + \
                ([] if own else [(DOCANN, LANG)]) + [(ANN, BEGIN)]
        sup, f = rng.choice(cands)
        g = dict(f)
        g["m"] = rng.choice([None, True, False])           # Feature.__eq__ does not look at the flag
        if kind == "redef_eq":
            if g["e"] is None and rng.random() < 0.3:
                g["e"] = "uima.cas.TOP"                    # absent = TOP
        else:
            how = rng.choice(["range", "descr", "elem"])
            if how == "range":
                g["r"] = "uima.cas.Integer" if g["r"] != "uima.cas.Integer" else "uima.cas.String"
            elif how == "descr":
                g["d"] = "another description"
            else:
                g["e"] = ANN if g["e"] in (None, "uima.cas.TOP") else None
        feats = [g, fresh] if rng.random() < 0.5 else [fresh, g]
        return {"kind": kind, "decl": {"n": XNAME, "d": None, "s": sup, "f": feats}}
    if kind == "range":
        return {"kind": kind, "decl": {"n": XNAME, "d": None, "s": ANN, "f": [dict(fresh, r="no.Such")]}}
    if kind == "elem":
        return {"kind": kind, "decl": {"n": XNAME, "d": None, "s": ANN, "f": [dict(fresh, r="uima.cas.FSArray", e="no.Such")]}}
    if kind == "super":
        return {"kind": kind, "decl": {"n": XNAME, "d": None, "s": "no.Such", "f": [fresh]}}
    return {"kind": kind, "decl": {"n": XNAME, "d": None, "s": rng.choice(FINAL), "f": [fresh]}}


XV_EXPECT = {"redef_eq": "ok", "redef_diff": "EValue", "range": "EKey", "elem": "EKey", "super": "EKey", "final": "EValue"}


def generate(rng, tier):
    if tier != "search":
        yield {"kind": "table"}
    n = {"quick": 600, "thorough": 6000, "search": 3000}[tier]
    for i in range(n):
        big = tier == "thorough" and i % 300 == 299
        types, dfe, seq, own = _gen_ts(rng, big, own=rng.random() < 0.2)
        declare_da = bool(dfe) or own is not None or rng.random() < 0.15
        nuser = len(types) + (1 if declare_da else 0)
        bis = [_bi_entry(rng, True) for _ in range(rng.choice([0, 1, 1, 2, 3]))]
        seen = set()
        bis = [b for b in bis if not (b["name"] in seen or seen.add(b["name"]))]
        bad = None
        if rng.random() < 0.3:
            bad = _bi_entry(rng, False)
            if bad["name"] in seen:
                bad = None
        pool_n = nuser + len(bis) + (1 if bad else 0)
        ident = list(range(nuser))
        perm = list(range(nuser + len(bis)))
        rng.shuffle(perm)
        rev = list(reversed(ident))
        if bad:
            rev.insert(rng.randint(0, len(rev)), pool_n - 1)
        elif bis and rng.random() < 0.5:
            rev = rev + [nuser]
        sc = {"kind": "ts", "types": types, "da": dfe, "declare_da": declare_da, "seq": seq,
              "pad": rng.randint(1, 9) if rng.random() < 0.33 else 0, "layout": rng.randint(0, 5),
              "bi": bis + ([bad] if bad else []), "runs": [ident, perm, rev]}
        if own is not None:
            sc["own"] = own
        if rng.random() < 0.4:
            # a fourth descriptor outside the well-formed ones: all user declarations, shuffled, plus one more type that
            # redefines an inherited feature (equally: dropped; differently: ValueError), refers to an undeclared type
            # (KeyError) or inherits from a final array type (ValueError)
            sc["xv"] = _gen_extra(rng, types, dfe, own)
            sel = ident + [pool_n]
            rng.shuffle(sel)
            sc["runs"].append(sel)
        yield sc


# ------------------------------------------------------------------------------------------------ abstract descriptors


def _pad(s, k, i):
    if not k:
        return s
    return WS[(k + i) % len(WS)] * ((k + i) % 2) + s + WS[(k + 2 * i + 1) % len(WS)] * ((k + i // 2) % 2)


def _bi_decl(b):
    """abstract declaration (name, descr, super, feats) of a redeclared built-in in the given variant"""
    name, var = b["name"], b["var"]
    sup, fs = BI[name]
    feats = [{"n": n, "d": None, "r": r, "e": None, "m": m} for n, r, m in fs]
    d = None
    if var == "featorder":
        feats.reverse()
    elif var == "elemtop":
        feats[0]["e"] = "uima.cas.TOP"
    elif var == "tdescr":
        d = "the built-in " + name
    elif var == "multinone":
        for f in feats:
            if not f["m"]:
                f["m"] = False if f["m"] is None else None
                break
    elif var == "super":
        sup = "uima.cas.TOP" if sup != "uima.cas.TOP" else "uima.cas.ListBase"
    elif var == "range":
        feats[-1]["r"] = "uima.cas.Integer" if feats[-1]["r"] != "uima.cas.Integer" else "uima.cas.String"
    elif var == "elem":
        feats[0]["e"] = ANN
    elif var == "extra":
        feats.append({"n": "extra", "d": None, "r": "uima.cas.String", "e": None, "m": None})
    elif var == "missing":
        feats.pop()
    elif var == "fdescr":
        feats[0]["d"] = "described"
    elif var == "multi":
        feats[-1]["m"] = not bool(feats[-1]["m"])
    elif var == "fname":
        feats[0]["n"] = feats[0]["n"] + "X"
    return {"n": name, "d": d, "s": sup, "f": feats}


def pool_of(sc):
    """The pool of abstract declarations the harness writes: user types in scenario order, DocumentAnnotation when it is
    declared, then the redeclared built-ins.  Names and references are padded when sc['pad'] is set."""
    k, cnt = sc["pad"], [0]

    def p(s):
        cnt[0] += 1
        return _pad(s, k, cnt[0])

    def feat(f):
        return {"n": p(f["n"]), "d": f["d"], "r": p(f["r"]), "e": None if f["e"] is None else p(f["e"]), "m": f["m"]}

    pool = []
    for t in sc["types"]:
        pool.append({"n": p(t["n"]), "d": t["d"], "s": p(t["s"]), "f": [feat(f) for f in t["f"]]})
    if sc["declare_da"]:
        own = sc.get("own")
        pool.append({"n": p(DOCANN), "d": own["d"] if own else None, "s": p(own["s"] if own else ANN),
                     "f": [feat(f) for f in _da_feats(sc)]})
    for b in sc["bi"]:
        t = _bi_decl(b)
        pool.append({"n": p(t["n"]), "d": t["d"], "s": p(t["s"]), "f": [feat(f) for f in t["f"]]})
    if sc.get("xv"):
        t = sc["xv"]["decl"]
        pool.append({"n": p(t["n"]), "d": t["d"], "s": p(t["s"]), "f": [feat(f) for f in t["f"]]})
    return pool


def _esc(s):
    return s.replace("&", "&amp;").replace("<", "&lt;").replace(">", "&gt;")


def write_descriptor(decls, layout):
    """The harness's own dumb XML writer (never cassis, never lxml)."""
    nl = "\n" if layout % 2 else ""
    pre = "u:" if layout >= 4 else ""
    out = ['<?xml version="1.0" encoding="UTF-8"?>' + nl]
    out.append(f'<{pre}typeSystemDescription xmlns{":u" if pre else ""}="{NS}">{nl}<{pre}types>{nl}')

    def el(tag, text, always=False):
        if text is None:
            return f"<{pre}{tag}/>{nl}" if (always or layout % 3 == 0) else ""
        return f"<{pre}{tag}>{_esc(text)}</{pre}{tag}>{nl}"

    for t in decls:
        out.append(f"<{pre}typeDescription>{nl}")
        parts = [el("name", t["n"], True), el("description", t["d"]), el("supertypeName", t["s"], True)]
        if layout in (2, 5):
            parts[1], parts[2] = parts[2], parts[1]
        out.extend(parts)
        if t["f"] or layout == 3:
            out.append(f"<{pre}features>{nl}")
            for f in t["f"]:
                out.append(f"<{pre}featureDescription>{nl}")
                out.append(el("name", f["n"], True))
                out.append(el("description", f["d"]))
                out.append(el("rangeTypeName", f["r"], True))
                if f["m"] is not None:
                    out.append(el("multipleReferencesAllowed", "true" if f["m"] else "false"))
                if f["e"] is not None:
                    out.append(el("elementType", f["e"]))
                out.append(f"</{pre}featureDescription>{nl}")
            out.append(f"</{pre}features>{nl}")
        out.append(f"</{pre}typeDescription>{nl}")
    out.append(f"</{pre}types>{nl}</{pre}typeSystemDescription>{nl}")
    return "".join(out)


def lift(xml_text):
    """bytes -> abstract descriptor, with the standard library parser only"""
    root = ET.fromstring(xml_text.encode("utf-8"))

    def q(tag):
        return "{%s}%s" % (NS, tag)

    def txt(e, tag):
        c = e.find(q(tag))
        return None if c is None or c.text is None or c.text == "" else c.text

    out = []
    for td in root.iter(q("typeDescription")):
        feats = []
        for fd in td.findall(q("features") + "/" + q("featureDescription")):
            m = txt(fd, "multipleReferencesAllowed")
            feats.append({"n": txt(fd, "name"), "d": txt(fd, "description"), "r": txt(fd, "rangeTypeName"),
                          "e": txt(fd, "elementType"), "m": None if m is None else {"true": True, "false": False}[m]})
        out.append({"n": txt(td, "name"), "d": txt(td, "description"), "s": txt(td, "supertypeName"), "f": feats})
    return out


# ------------------------------------------------------------------------------------------------ implementation driver


def build_ts(cassis, sc):
    from cassis import TypeSystem
    own = sc.get("own")
    ts = TypeSystem(add_document_annotation_type=False) if own else TypeSystem()
    for i, t in enumerate(sc["types"]):
        if own and own["at"] == i:
            ts.create_type(DOCANN, own["s"], description=own["d"])
        ts.create_type(t["n"], t["s"], description=t["d"])
    if own and own["at"] >= len(sc["types"]):
        ts.create_type(DOCANN, own["s"], description=own["d"])
    by = {t["n"]: t["f"] for t in sc["types"]}
    by[DOCANN] = sc["da"]
    for tn, j in sc["seq"]:
        f = by[tn][j]
        ts.create_feature(ts.get_type(tn), f["n"], f["r"], elementType=f["e"], description=f["d"],
                          multipleReferencesAllowed=f["m"])
    return ts


def dump_ts(cassis, ts):
    """types that are not predefined in dict order: [name, description, supertype, [own features]]; redeclared names"""
    from cassis.typesystem import is_predefined
    types = []
    for t in ts.get_types(built_in=True):
        if is_predefined(t.name):
            continue
        feats = [[f.name, bool(getattr(f, "_has_reserved_name", False)), f.description, f.rangeType.name,
                  None if f.elementType is None else f.elementType.name, f.multipleReferencesAllowed] for f in t.features]
        types.append([t.name, t.description, t.supertype.name, feats])
    return {"types": types, "redecl": sorted(getattr(ts, "_predefined_types"))}


def _err_kind(e):
    n = type(e).__name__
    if n == "TypeNotFoundError":
        return "ETypeNotFound"
    if isinstance(e, KeyError):
        return "EKey"
    if isinstance(e, ValueError):
        return "EValue"
    if isinstance(e, AttributeError):
        return "EAttribute"
    if isinstance(e, TypeError):
        return "EType"
    return "ERuntime"


def _own_order(decls):
    """an admissible creation order computed by the harness (parents first), used when the load raised"""
    names = [d["n"].strip() for d in decls]
    sup = {d["n"].strip(): d["s"].strip() for d in decls}
    if DOCANN not in sup:
        names.append(DOCANN)
        sup[DOCANN] = ANN
    out, state = [], {}

    def visit(n):
        if state.get(n) or n not in sup:
            return
        state[n] = 1
        visit(sup[n])
        out.append(n)

    for n in names:
        visit(n)
    return out


def _load_run(cassis, text):
    import warnings
    from cassis import load_typesystem
    try:
        with warnings.catch_warnings():
            warnings.simplefilter("ignore")
            ts = load_typesystem(text)
    except Exception as e:  # noqa
        return {"res": _err_kind(e), "exc": type(e).__name__}
    d = dump_ts(cassis, ts)
    x = ts.to_xml()
    return {"res": "ok", "dump": d, "order": [t[0] for t in d["types"]], "x": x, "lift": lift(x)}


def run_impl(cassis, sc):
    from cassis import TypeSystem
    if sc["kind"] == "table":
        from cassis.typesystem import is_predefined
        ts = TypeSystem()
        tbl = []
        for t in ts.get_types(built_in=True):
            if not is_predefined(t.name):
                continue
            tbl.append({"n": t.name, "d": t.description, "s": t.supertype.name if t.supertype else "",
                        "f": [{"n": f.name, "d": f.description, "r": f.rangeType.name,
                               "e": None if f.elementType is None else f.elementType.name,
                               "m": f.multipleReferencesAllowed} for f in t.features]})
        finals = []
        for i, t in enumerate(tbl):
            try:
                TypeSystem().create_type("probe.P%d" % i, t["n"])
            except ValueError:
                finals.append(t["n"])
        return {"table": tbl, "finals": finals}
    ts = build_ts(cassis, sc)
    obs = {"dumpA": dump_ts(cassis, ts)}
    x = ts.to_xml()
    obs["x"] = x
    obs["liftA"] = lift(x)
    obs["rt"] = _load_run(cassis, x)                      # the round trip
    if obs["rt"]["res"] == "ok":
        obs["rt2"] = _load_run(cassis, obs["rt"]["x"])    # and once more
    pool = pool_of(sc)
    obs["runs"] = []
    for sel in sc["runs"]:
        decls = [pool[i] for i in sel]
        text = write_descriptor(decls, sc["layout"])
        if lift(text) != [_lifted(d) for d in decls]:
            raise AssertionError("harness writer and harness parser disagree")
        r = _load_run(cassis, text)
        if r["res"] != "ok":
            r["order"] = _own_order(decls)
        obs["runs"].append(r)
    return obs


def _lifted(d):
    def e(x):
        return None if x == "" else x
    return {"n": d["n"], "d": e(d["d"]), "s": d["s"],
            "f": [{"n": f["n"], "d": e(f["d"]), "r": f["r"], "e": f["e"], "m": f["m"]} for f in d["f"]]}


# ------------------------------------------------------------------------------------------------ oracle


def _nd(d):
    """descriptions are kept up to surrounding white space; the empty one is the absent one"""
    if d is None:
        return None
    d = d.strip()
    return d if d else None


def _expected_content(sc):
    """content of the type system as the scenario states it: {name: (descr, super, [(name, descr, range, elem, multi)])}"""
    exp = {}
    for t in sc["types"]:
        exp[t["n"]] = (_nd(t["d"]), t["s"], [(f["n"], _nd(f["d"]), f["r"], f["e"], f["m"]) for f in t["f"]])
    own = sc.get("own")
    exp[DOCANN] = (_nd(own["d"]) if own else None, own["s"] if own else ANN,
                   [(f["n"], _nd(f["d"]), f["r"], f["e"], f["m"]) for f in _da_feats(sc)])
    return exp


def _content(dump):
    out = {}
    for n, d, s, fs in dump["types"]:
        out[n] = (_nd(d), s, [((fn[:-1] if res else fn), _nd(fd), r, e, m) for fn, res, fd, r, e, m in fs])
    return out


def _untrimmed(dump):
    """descriptions are white-space-trimmed on load: every type and feature description equals its strip()"""
    for n, d, _s, fs in dump["types"]:
        if d is not None and d != d.strip():
            return f"type {n!r} has description {d!r}"
        for f in fs:
            if f[2] is not None and f[2] != f[2].strip():
                return f"feature {n}:{f[0]} has description {f[2]!r}"
    return None


def _emitted_vs_trimmed(lifted, exp):
    """the re-emitted descriptor declares every user type with exactly the trimmed descriptions (an empty one = absent)"""
    for t in lifted:
        if t["n"] in BI:
            continue
        got = (t["d"], t["s"], [(f["n"], f["d"], f["r"], f["e"], f["m"]) for f in t["f"]])
        if t["n"] not in exp or got != exp[t["n"]]:
            return f"type {t['n']!r}: written {got!r}, trimmed declaration {exp.get(t['n'])!r}"
    return None


def _diff(a, b):
    for k in sorted(set(a) | set(b)):
        if a.get(k) != b.get(k):
            return f"type {k!r}: {a.get(k)!r} vs {b.get(k)!r}"
    return "?"


def _descrs(sc):
    return [t["d"] for t in sc["types"]] + [f["d"] for t in sc["types"] for f in t["f"]] + [f["d"] for f in sc["da"]] + \
           ([sc["own"]["d"]] if sc.get("own") else [])


def _clean(sc):
    ds = _descrs(sc)
    return all(d is None or (d == d.strip() and d != "") for d in ds)


def _blank(sc):
    """a description of white space only is loaded as "" and written as <description></description>, which is read as
    absent: bytes settle one trip later (byte layer; the abstract descriptors are compared in Coq)"""
    ds = _descrs(sc)
    return any(d is not None and d != "" and d.strip() == "" for d in ds)


def oracle(cassis, sc, obs):
    if sc["kind"] == "table":
        return None
    exp = _expected_content(sc)
    if _content(obs["dumpA"]) != exp:
        return "api-build: the type system built through the API differs from the scenario: " + _diff(_content(obs["dumpA"]), exp)
    rt = obs["rt"]
    if rt["res"] != "ok":
        return f"roundtrip-load: load_typesystem(ts.to_xml()) raised {rt['exc']}"
    if _content(rt["dump"]) != exp:
        return "roundtrip-content: load_typesystem(ts.to_xml()) declares something else: " + _diff(_content(rt["dump"]), exp)
    nx = len(sc["types"]) + (1 if sc["declare_da"] else 0) + len(sc["bi"])
    for what, r in [("load_typesystem(ts.to_xml())", rt)] + [("a harness-written descriptor", r)
                                                             for sel, r in zip(sc["runs"], obs["runs"]) if nx not in sel]:
        if r["res"] != "ok":
            continue
        m = _untrimmed(r["dump"])
        if m:
            return f"untrimmed-description: after {what}: {m}"
        m = _emitted_vs_trimmed(r["lift"], exp)
        if m:
            return f"reemit-trimmed: re-emitting the type system loaded from {what} does not give the trimmed descriptor: {m}"
    if _clean(sc) and rt["x"] != obs["x"]:
        return "reemit-bytes: to_xml(load(to_xml(ts))) differs from to_xml(ts)"
    rt2 = obs.get("rt2")
    if rt2 is None or rt2["res"] != "ok":
        return "reemit-load: the re-emitted descriptor does not load"
    if _content(rt2["dump"]) != exp:
        return "reemit-content: the re-emitted descriptor declares something else: " + _diff(_content(rt2["dump"]), exp)
    if rt2["x"] != rt["x"] and not _blank(sc):
        return "reemit-bytes: re-emitting the loaded type system twice gives different bytes"
    nuser = len(sc["types"]) + (1 if sc["declare_da"] else 0)
    by_sel = {}
    xi = nuser + len(sc["bi"])                                 # pool index of the extra declaration, if any
    for sel, r in zip(sc["runs"], obs["runs"]):
        if xi in sel:
            xv = sc["xv"]
            want = XV_EXPECT[xv["kind"]]
            if r["res"] != want:
                return (f"extra-{xv['kind']}: a descriptor with one more type ({xv['kind']}) gave "
                        f"{r.get('exc', r['res'])}, expected {want}")
            if want == "ok":
                exp2 = dict(exp)
                t = xv["decl"]
                exp2[XNAME] = (None, t["s"], [(f["n"], _nd(f["d"]), f["r"], f["e"], f["m"]) for f in t["f"] if f["n"] == "zz"])
                if _content(r["dump"]) != exp2:
                    return "extra-redef_eq-content: an equal redefinition of an inherited feature was not dropped: " + \
                           _diff(_content(r["dump"]), exp2)
            continue
        bad = [sc["bi"][i - nuser] for i in sel if i >= nuser and sc["bi"][i - nuser]["var"] in BI_BAD]
        if bad:
            if r["res"] == "ok":
                return f"builtin-different-accepted: {bad[0]['name']} redeclared differently ({bad[0]['var']}) was accepted"
            if r["res"] != "EValue":
                return f"builtin-different-error: {bad[0]['name']} redeclared differently raised {r['exc']}, not ValueError"
            continue
        if r["res"] != "ok":
            return f"permuted-load: a valid descriptor (selection {sel}) raised {r['exc']}"
        if _content(r["dump"]) != exp:
            return f"permuted-content: descriptor in order {sel} loads to something else: " + _diff(_content(r["dump"]), exp)
        want = [pool_name(sc, i) for i in sel if i >= nuser] + ([DOCANN] if sc["declare_da"] and len(sc["types"]) in sel else [])
        if r["dump"]["redecl"] != sorted(want):
            return f"permuted-redeclared: redeclared built-ins remembered {r['dump']['redecl']}, declared {sorted(want)}"
        key = tuple(sorted(sel))
        if key in by_sel and by_sel[key] != r["x"]:
            return "permuted-bytes: the same declarations in another order re-emit to different bytes"
        by_sel[key] = r["x"]
        if sorted(i for i in sel if i < nuser) == list(range(nuser)) and not [i for i in sel if i >= nuser]:
            if _clean(sc) and (not _da_default(sc) or not sc["declare_da"]) and r["x"] != obs["x"]:
                return "permuted-bytes: a permutation of the descriptor re-emits to other bytes than to_xml(ts)"
    return None


def pool_name(sc, i):
    nuser = len(sc["types"]) + (1 if sc["declare_da"] else 0)
    return sc["bi"][i - nuser]["name"]


# ------------------------------------------------------------------------------------------------ Gallina rendering

_ABBR = {"uima.cas.TOP": "uTOP", "uima.cas.String": "uStr", "uima.cas.Integer": "uInt", "uima.cas.Float": "uFlt",
         "uima.cas.Boolean": "uBool", "uima.cas.Byte": "uByte", "uima.cas.Short": "uShort", "uima.cas.Long": "uLong",
         "uima.cas.Double": "uDbl", ANN: "uAnn", "uima.cas.AnnotationBase": "uAB", "uima.cas.FSArray": "uFSA",
         "uima.cas.FSList": "uFSL", "uima.cas.StringArray": "uStrA", "uima.cas.IntegerArray": "uIntA",
         "uima.cas.StringList": "uStrL", "uima.cas.IntegerList": "uIntL", "uima.cas.FloatList": "uFltL",
         DOCANN: "uDA", "uima.cas.Sofa": "uSofa"}


def _s(s):
    if s in _ABBR:
        return _ABBR[s]
    t = gstr(s)
    return t[:-len("%string")] if t.endswith('"%string') else t


def _o(s):
    return "N" if s is None else f"(S' {_s(s)})"


def _b(m):
    return "NB" if m is None else ("BT" if m else "BF")


def _g_fdecl(f):
    return f"F {_s(f['n'])} {_o(f['d'])} {_s(f['r'])} {_o(f['e'])} {_b(f['m'])}"


def _g_tdecl(t):
    return f"T {_s(t['n'])} {_o(t['d'])} {_s(t['s'])} {glist([_g_fdecl(f) for f in t['f']])}"


def _g_descr(d):
    return glist([_g_tdecl(t) for t in d])


def _g_stype(t):
    n, d, s, fs = t
    feats = glist([f"SF {_s(fn)} {gbool(res)} {_o(fd)} {_s(r)} {_o(e)} {_b(m)}" for fn, res, fd, r, e, m in fs])
    return f"ST {_s(n)} {_o(d)} {_s(s)} {feats}"


def _g_tsys(dump):
    return f"(mkTS {glist([_g_stype(t) for t in dump['types']])} {glist([_s(n) for n in dump['redecl']])})"


def _g_res(r):
    return f"(Ok {_g_tsys(r['dump'])})" if r["res"] == "ok" else f"(Err {r['res']})"


def scenario_tsys(sc):
    """content of the API-built type system as the scenario states it (DocumentAnnotation is created first)"""
    def sf(f):
        return [_py(f["n"]), f["n"] in ("self", "type"), f["d"], f["r"], f["e"], f["m"]]
    own = sc.get("own")
    da = [DOCANN, own["d"] if own else None, own["s"] if own else ANN, [sf(f) for f in _da_feats(sc)]]
    types = [[t["n"], t["d"], t["s"], [sf(f) for f in t["f"]]] for t in sc["types"]]
    types.insert(min(own["at"], len(types)) if own else 0, da)
    return {"types": types, "redecl": []}


def render(sc, obs):
    if sc["kind"] == "table":
        return f"CaseTable {_g_descr(obs['table'])} {glist([_s(n) for n in obs['finals']])}"
    pool = [_lifted(d) for d in pool_of(sc)]
    dumps, emits, runs = [], [], []

    def idx(tab, term):
        if term not in tab:
            tab.append(term)
        return tab.index(term)

    def add(src, sel, r):
        di = idx(dumps, _g_res(r))
        ei = idx(emits, _g_descr(r["lift"])) if r["res"] == "ok" else 0
        runs.append(f"mkRun {gbool(src)} {glist([gnat(i) for i in sel])} {glist([_s(n) for n in r['order']])} {gnat(di)} {gnat(ei)}")

    rt = obs["rt"]
    if rt["res"] != "ok":
        rt = dict(rt, order=_own_order(obs["liftA"]))
    add(True, list(range(len(obs["liftA"]))), rt)
    if obs.get("rt2"):
        # the re-emitted descriptor read again: same bytes expected, so the emitted descriptor is the source again
        pass
    for sel, r in zip(sc["runs"], obs["runs"]):
        add(False, sel, r)
    return (f"CaseTS {_g_tsys(scenario_tsys(sc))} {_g_descr(obs['liftA'])} {_g_descr(pool)}\n  {glist(runs)}\n  "
            f"{glist(dumps)}\n  {glist(emits)}")


# ------------------------------------------------------------------------------------------------ bookkeeping


def nontrivial(sc):
    if sc["kind"] != "ts":
        return False
    nuser = len(sc["types"]) + (1 if sc["declare_da"] else 0)
    pos_of = {t["n"]: i for i, t in enumerate(sc["types"])}
    if sc["declare_da"]:
        pos_of[DOCANN] = len(sc["types"])
    for sel in sc["runs"]:
        if any(i >= nuser for i in sel):
            return True
        where = {i: p for p, i in enumerate(sel)}
        for t in sc["types"]:
            if t["s"] in pos_of and pos_of[t["s"]] in where and pos_of[t["n"]] in where:
                if where[pos_of[t["n"]]] < where[pos_of[t["s"]]]:
                    return True
    return False


def _drop_type(sc, name):
    c = json.loads(json.dumps(sc))
    gone = {name}
    changed = True
    while changed:
        changed = False
        for t in c["types"]:
            if t["n"] not in gone and t["s"] in gone:
                gone.add(t["n"])
                changed = True
    keep = [i for i, t in enumerate(c["types"]) if t["n"] not in gone]
    remap = {old: new for new, old in enumerate(keep)}
    n_old = len(c["types"])
    c["types"] = [c["types"][i] for i in keep]
    if c.get("own"):
        c["own"]["at"] = sum(1 for i in keep if i < c["own"]["at"])

    def fix(fs):
        out = []
        for f in fs:
            if f["r"] in gone:
                f["r"] = "uima.cas.TOP"
            if f["e"] in gone:
                f["e"] = None
            out.append(f)
        return out

    for t in c["types"]:
        t["f"] = fix(t["f"])
    c["da"] = fix(c["da"])
    c["seq"] = [[t["n"], j] for t in c["types"] for j in range(len(t["f"]))] + [[DOCANN, j] for j in range(len(c["da"]))]
    shift = n_old - len(keep)
    runs = []
    for sel in c["runs"]:
        runs.append([remap[i] if i < n_old else i - shift for i in sel if i >= n_old or i in remap])
    c["runs"] = runs
    if c.get("xv") and (c["xv"]["decl"]["s"] in gone or any(f["r"] in gone or f["e"] in gone for f in c["xv"]["decl"]["f"])):
        xi = len(c["types"]) + (1 if c["declare_da"] else 0) + len(c["bi"])
        c["runs"] = [sel for sel in c["runs"] if xi not in sel]
        del c["xv"]
    return c


def _noxv(c):
    """without the extra declaration (edits of features or descriptions would change what it redefines)"""
    if c.get("xv"):
        xi = len(c["types"]) + (1 if c["declare_da"] else 0) + len(c["bi"])
        c["runs"] = [sel for sel in c["runs"] if xi not in sel]
        del c["xv"]
    return c


def shrink_candidates(sc):
    if sc["kind"] != "ts":
        return
    if sc.get("xv"):
        yield _noxv(json.loads(json.dumps(sc)))
        sc = _noxv(json.loads(json.dumps(sc))) if len(sc["runs"]) < 4 else sc
    if sc.get("xv"):
        # the extra run is what fails, or not: try without the other runs, then shrink only what does not touch it
        for t in reversed(sc["types"]):
            yield _drop_type(sc, t["n"])
        for i in range(len(sc["runs"]) - 1):
            c = json.loads(json.dumps(sc))
            del c["runs"][i]
            yield c
        if sc["pad"]:
            yield dict(json.loads(json.dumps(sc)), pad=0)
        if sc["layout"]:
            yield dict(json.loads(json.dumps(sc)), layout=0)
        return
    for t in reversed(sc["types"]):
        yield _drop_type(sc, t["n"])
    for ti, t in enumerate(sc["types"]):
        for j in range(len(t["f"])):
            c = json.loads(json.dumps(sc))
            del c["types"][ti]["f"][j]
            c["seq"] = [[t2["n"], k] for t2 in c["types"] for k in range(len(t2["f"]))] + [[DOCANN, k] for k in range(len(c["da"]))]
            yield c
    for j in range(len(sc["da"])):
        c = json.loads(json.dumps(sc))
        del c["da"][j]
        c["seq"] = [[t2["n"], k] for t2 in c["types"] for k in range(len(t2["f"]))] + [[DOCANN, k] for k in range(len(c["da"]))]
        if not c["da"] and not c["declare_da"]:
            continue
        yield c
    if len(sc["runs"]) > 1:
        for i in range(len(sc["runs"])):
            c = json.loads(json.dumps(sc))
            del c["runs"][i]
            yield c
    nuser = len(sc["types"]) + (1 if sc["declare_da"] else 0)
    for k in range(len(sc["bi"])):
        c = json.loads(json.dumps(sc))
        del c["bi"][k]
        c["runs"] = [[i if i < nuser + k else i - 1 for i in sel if i != nuser + k] for sel in c["runs"]]
        yield c
    if sc["pad"]:
        yield dict(json.loads(json.dumps(sc)), pad=0)
    if sc["layout"]:
        yield dict(json.loads(json.dumps(sc)), layout=0)
    if sc.get("own"):
        for k, v in (("d", None), ("s", ANN), ("at", 0)):
            if sc["own"][k] != v:
                c = json.loads(json.dumps(sc))
                c["own"][k] = v
                yield c
    for ti, t in enumerate(sc["types"]):
        if t["d"] is not None:
            c = json.loads(json.dumps(sc))
            c["types"][ti]["d"] = None
            yield c
        for j, f in enumerate(t["f"]):
            if f["d"] is not None:
                c = json.loads(json.dumps(sc))
                c["types"][ti]["f"][j]["d"] = None
                yield c


def mutate(sc, rng):
    if sc["kind"] != "ts":
        return
    for _ in range(10):
        c = json.loads(json.dumps(sc))
        for sel in c["runs"]:
            rng.shuffle(sel)
        yield c


def signature(sc, msg):
    return {"what": msg.split(":")[0] if msg else ""}


def distribution(scenarios, observations):
    ts = [s for s in scenarios if s["kind"] == "ts"]
    runs = [r for o in observations if o and "runs" in o for r in o["runs"]]
    feats = [f for s in ts for t in s["types"] for f in t["f"]] + [f for s in ts for f in s["da"]]
    return {"type_systems": len(ts), "descriptors_loaded": len(runs) + 2 * len(ts),
            "max_types": max([len(s["types"]) for s in ts] or [0]),
            "features": len(feats),
            "multi_true_false_none": [sum(1 for f in feats if f["m"] is True), sum(1 for f in feats if f["m"] is False),
                                      sum(1 for f in feats if f["m"] is None)],
            "element_types": sum(1 for f in feats if f["e"] is not None),
            "reserved_names": sum(1 for f in feats if f["n"] in ("self", "type")),
            "user_ranges": sum(1 for f in feats if f["r"] not in BI),
            "builtin_ranges_used": len({f["r"] for f in feats if f["r"] in BI}),
            "no_namespace_types": sum(1 for s in ts for t in s["types"] if "." not in t["n"]),
            "docann_extended": sum(1 for s in ts if s["da"] and not s.get("own")),
            "docann_declared": sum(1 for s in ts if s["declare_da"]),
            "docann_own": sum(1 for s in ts if s.get("own")),
            "docann_own_without_features": sum(1 for s in ts if s.get("own") and not s["da"]),
            "docann_own_without_language": sum(1 for s in ts if s.get("own") and s["da"]
                                               and "language" not in [f["n"] for f in s["da"]]),
            "docann_own_only_language_not_default": sum(1 for s in ts if s.get("own") and not _da_default(s)
                                                        and [f["n"] for f in s["da"]] == ["language"]),
            "docann_own_exactly_default": sum(1 for s in ts if s.get("own") and _da_default(s)),
            "padded": sum(1 for s in ts if s["pad"]),
            "runs_rejected": sum(1 for r in runs if r["res"] != "ok"),
            "runs_with_builtins": sum(1 for s in ts for sel in s["runs"]
                                      if any(i >= len(s["types"]) + (1 if s["declare_da"] else 0) for i in sel))}


MANIFEST = {
    "level_text": "Machine-checked proof (Coq 8.16) over an executable model of the type system XML writer and reader on abstract "
                  "descriptors: for every well-formed type system and every creation order admitted by the toposort contract, "
                  "reading what was written gives back the same user types, supertypes, trimmed descriptions and own features "
                  "(range, element type, tri-state flag, description, reserved names, DocumentAnnotation); re-emission of a "
                  "descriptor in written form is the identity up to trimming; any permutation of the declarations and any "
                  "admissible order give the same content; built-ins redeclared identically are accepted, differently rejected. "
                  "Deepened: loading preserves well-formedness (third emission = second is a theorem); for ALL descriptors with "
                  "distinct names the reader equals a declarative reading, permutations and admissible orders give the same "
                  "content or the same kind of exception; the supertype walk never runs out of fuel and the fuel bounds of the "
                  "premises follow from the toposort contract; a loaded content replayed in the hierarchy model of C10/C11 "
                  "satisfies its invariants WFh/WF and reads back as the same types, supertypes and own features. "
                  "The model is tied to /repo on every run by evaluating it inside Coq on the descriptors the implementation "
                  "wrote and read.",
    "level_note": "Trusted: Coq kernel + vm_compute; hand-written model coq/Descr.v; toposort_flatten by contract (observed order "
                  "checked against it); byte layer (lxml) below the model, lifted with xml.etree, byte equality of re-emission by "
                  "the oracle on the implementation; ASCII white space for strip. Print Assumptions: closed under the global context.",
    "technique": "Coq proof over an executable Gallina model + in-Coq behavioural correspondence (API-built type systems, permuted "
                 "descriptors, redeclared built-ins) + direct round-trip oracle",
    "design_ref": "DESIGN.md section 5, C12",
}
