"""C17 — lenient loading drops exactly the feature structures of unknown type; strict loading refuses.

A scenario: a shared scen.py type system + CAS (1-3 views), the set of user types deleted from the type system that is
given to the reader (closed under subtypes and under "a kept type has a feature whose range was deleted"), the lenient flag,
and whether references from kept to dropped structures were cleared before saving ("closed", the quantifier of the property)
or left in the document ("dangling": then both sides must fail alike).
  document   cassis' own to_xmi output for the FULL type system, in two thirds of the cases re-written by xmlabs with the
             elements in another order (views and sofas first, reversed, shuffled: a View may precede its members)
  run        load_cas_from_xmi(bytes, reduced type system, lenient=flag)  ->  error kind | scen.canon + add outcomes
  oracle     strict + an element of a deleted type        -> TypeNotFoundError
             lenient                                       -> same outcome as loading, strictly, the document filtered by
                                                              the harness (elements of deleted types and their member ids
                                                              removed with xmlabs, independent of cassis)
             nothing deleted / no element of a deleted type -> both flags give the same content
             adds of a foreign-typed FS through the CAS, get_view(v), get_view(v).get_view(w), create_view(new) handles:
             accepted by every handle of a lenient CAS, RuntimeError from every handle of a strict CAS
In Coq (CorrC17.check_case): the model reader gives the same error kind / content, the model's lenient result equals the
model's strict result on drop_unknown(document), the add guard gives every observed outcome.
"""
import json
import random
from io import BytesIO

from harness import scen, xmlabs
from harness.gallina import gbool, glist, gstr
from harness.props import C05 as c05

ID = "C17"
COQ_TARGETS = ["XmiLoad.vo", "XmiLoadProofs.vo", "CorrC05.vo", "CorrC17.vo", "Props/C17.vo"]
PROPS_FILE = "Props/C17.v"
CORR_IMPORTS = "Base Heap Schema Canon XmiDoc XmiLoad CorrC17"
ENTRY = "cassis.xmi.load_cas_from_xmi(lenient=...) / Cas.add / Cas._copy"
CASES_PER_SHARD = 40
SHARD_BYTES = 160_000
CASE_TIMEOUT_S = 30
RULE = (
    "scen.py type systems (3-8 user types, awkward names; in a third of the cases the no-namespace type is renamed so that "
    "its short name equals the short name of a namespaced type) and CASes with 1-3 views; every scenario is run for a "
    "random subset of deleted user types (closed under subtypes and feature ranges; also the empty subset) x lenient in "
    "{True, False} x element order in {as written, shuffled, views and sofas first, reversed, descending ids}; references from kept to dropped structures are cleared before saving, except in 30% of the cases that have "
    "such references, where they are left dangling; after a successful load a structure of a foreign type (new namespace, and a no-namespace name "
    "equal to the short name of a known type) is added through 4-6 handles. Non-trivial: at least one element of the "
    "document has a deleted type."
)
TRUSTED = [
    "Coq 8.16.1 kernel and vm_compute; theorems in Props/C17.v closed under the global context (parse_flt universally quantified)",
    "hand-written model coq/XmiLoad.v of the reader's lenient branch, member skipping, Cas.add guard and Cas._copy",
    "harness/xmlabs.py (xml.etree only) for bytes <-> abstract documents and for the independent filtering of the document",
    "scen.schema_of for the reduced type system; Python float(str) as a table per case",
    "the document under test is cassis' own to_xmi output (writer correctness is C01/C04)",
]
ASSUMPTIONS = [
    "user features are not called sofa, xmiID, elements, head or tail (DESIGN section 6: structural names; Cas.add sets any "
    "attribute called sofa)",
    "deleted type sets are closed under subtypes and feature ranges (the reduced type system is a type system)",
    "xmi:ids in documents are decimal numbers",
]
T = scen.T
ERR = {"TypeNotFoundError": "ETypeNotFound", "KeyError": "EKey", "ValueError": "EValue", "RuntimeError": "ERuntime",
       "TypeError": "EType", "AttributeError": "EAttribute", "IndexError": "EIndex"}
_CACHE = {}


# ------------------------------------------------------------------------------------------------ scenario surgery


def close_deleted(tspec, deleted):
    d = set(deleted)
    changed = True
    while changed:
        changed = False
        for t in tspec:
            if t["name"] in d:
                continue
            if t["super"] in d or any(f["range"] in d or (f.get("elem") in d) for f in t["feats"]):
                d.add(t["name"])
                changed = True
    return d


def reduce_tspec(tspec, deleted):
    return [t for t in tspec if t["name"] not in deleted]


def rename_type(tspec, cspec, old, new):
    def rn(x):
        return new if x == old else x
    ts2 = [{"name": rn(t["name"]), "super": rn(t["super"]),
            "feats": [{**f, "range": rn(f["range"]), "elem": rn(f.get("elem"))} for f in t["feats"]]} for t in tspec]
    cs2 = json.loads(json.dumps(cspec))
    for o in cs2["objs"]:
        o["type"] = rn(o["type"])
    return ts2, cs2


def clear_dangling(cspec, deleted):
    """Null every reference from a kept object to a dropped one (also inside arrays; list nodes lose their head)."""
    c = json.loads(json.dumps(cspec))
    dropped = {o["o"] for o in c["objs"] if o["type"] in deleted}

    def fix(v):
        if isinstance(v, dict):
            if v.get("ref") in dropped:
                return None
            if "list" in v:
                return {"list": [fix(x) for x in v["list"]]}
        return v

    for o in c["objs"]:
        if o["o"] not in dropped:
            o["slots"] = {k: fix(v) for k, v in o["slots"].items()}
    return c


def filter_doc(doc, schema_reduced):
    """Independent of cassis: drop the elements whose type the reduced schema does not define, and their member ids."""
    gone, keep = set(), []
    for e in doc["elems"]:
        if xmlabs.kind(e) == "FS" and c05.type_of_elem(e) not in schema_reduced:
            i = xmlabs.attr(e, "xmi:id")
            if i:
                gone.add(int(i))
        else:
            keep.append(e)
    out = []
    for e in keep:
        if xmlabs.kind(e) == "View":
            attrs = [[k, " ".join(t for t in v.split() if int(t) not in gone)] if k == "members" else [k, v] for k, v in e["attrs"]]
            e = {"ns": e["ns"], "tag": e["tag"], "attrs": attrs, "kids": e["kids"]}
        out.append(e)
    return {"root": doc.get("root"), "elems": out}, gone


# ------------------------------------------------------------------------------------------------ implementation driver


def _load(cassis, data, ts, lenient):
    try:
        return "ok", cassis.load_cas_from_xmi(BytesIO(data), typesystem=ts, lenient=lenient)
    except Exception as e:  # noqa: the kind is the observation
        return "err", type(e).__name__


def _outcome(kind, val):
    return {"err": val} if kind == "err" else {"canon": scen.canon(val, "xmi")}


def _adds(cassis, cas, ts_full_names, sc):
    """Add a structure of a foreign type through several handles; the FS is fresh for every attempt."""
    foreign = cassis.TypeSystem()
    names = ["zz.other.Foreign"] + sc.get("foreign_short", [])
    ftypes = []
    for n in names:
        if n in ts_full_names:
            continue
        ftypes.append(foreign.create_type(n, scen.TOP))
    views = [s.sofaID for s in cas.sofas]
    paths = [[]] + [[v] for v in views[:2]] + ([[views[0], views[-1]]] if views else []) + [["+fresh_view"], ["+fresh_view", views[0]]]
    out = []
    for path in paths:
        h = cas
        try:
            for step in path:
                if step.startswith("+"):
                    name = step[1:]
                    h = h.get_view(name) if name in [s.sofaID for s in cas.sofas] else h.create_view(name)
                else:
                    h = h.get_view(step)
        except Exception as e:  # noqa
            out.append([path, "?", "path:" + type(e).__name__])
            continue
        for ft in ftypes:
            try:
                h.add(ft())
                out.append([[p.lstrip("+") for p in path], ft.name, None])
            except Exception as e:  # noqa
                out.append([[p.lstrip("+") for p in path], ft.name, type(e).__name__])
    return out


def run_impl(cassis, sc):
    ts_full = scen.build_ts(cassis, sc["tspec"])
    cspec = sc["cspec"]
    cas, _v, _o = scen.build_cas(cassis, ts_full, cspec)
    data = cas.to_xmi().encode("utf-8")
    doc = xmlabs.parse(data)
    if sc.get("order"):          # the same document with its elements in another order (views / sofas anywhere)
        idx = c05.order_of(doc, {"order": sc["order"]}, random.Random(sc.get("oseed", 0)))
        data = xmlabs.write({"root": doc.get("root"), "elems": [doc["elems"][i] for i in idx]})
        doc = xmlabs.parse(data)
    red = reduce_tspec(sc["tspec"], set(sc["deleted"]))
    schema = scen.schema_of(cassis, red)
    fdoc, gone = filter_doc(doc, schema)
    lenient = sc["lenient"]
    k, v = _load(cassis, data, scen.build_ts(cassis, red), lenient)
    main = _outcome(k, v)
    adds = _adds(cassis, v, {t["name"] for t in red} | set(scen.builtin_table(cassis)), sc) if k == "ok" else []
    k2, v2 = _load(cassis, xmlabs.write(fdoc), scen.build_ts(cassis, red), False)
    filtered = _outcome(k2, v2)
    k3, v3 = _load(cassis, data, scen.build_ts(cassis, red), not lenient)
    other = _outcome(k3, v3)
    names = c05.used_names(schema, doc)
    for t in red:                                   # every user type: short-name lookups must see them all
        if t["name"] not in names:
            names.append(t["name"])
    return {"main": main, "filtered": filtered, "other": other, "adds": adds, "doc": doc, "n_unknown": len(gone) if gone else
            sum(1 for e in doc["elems"] if xmlabs.kind(e) == "FS" and c05.type_of_elem(e) not in schema),
            "flts": c05.float_table(scen.schema_of(cassis, sc["tspec"]), doc),
            "schema": {n: {"anc": schema[n]["anc"], "feats": [list(f) for f in schema[n]["feats"]]} for n in sorted(names)}}


def _same(a, b):
    return json.loads(json.dumps(a, sort_keys=True)) == json.loads(json.dumps(b, sort_keys=True))


def oracle(cassis, sc, obs):
    main, filt, other = obs["main"], obs["filtered"], obs["other"]
    unknown = obs["n_unknown"] > 0
    if not sc["lenient"]:
        if unknown and main.get("err") != "TypeNotFoundError":
            return "strict loading of a document with %d element(s) of undefined type did not raise TypeNotFoundError: %s" % (
                obs["n_unknown"], json.dumps(main)[:200])
        if not unknown and not _same(main, filt):
            return "strict loading: content differs from the same document written by the harness"
    else:
        if not _same(main, filt):
            return "lenient loading is not the filter: lenient %s, strict on the filtered document %s" % (
                json.dumps(main)[:300], json.dumps(filt)[:300])
    if not unknown and not _same(main, other):
        return "all types are known but the lenient flag changes the result: %s vs %s" % (json.dumps(main)[:200], json.dumps(other)[:200])
    for path, tn, out in obs["adds"]:
        if tn == "?":
            return "handle %s could not be obtained: %s" % (path, out)
        if sc["lenient"] and out is not None:
            return "lenient CAS refused a structure of foreign type %s through handle %s: %s" % (tn, path, out)
        if not sc["lenient"] and out != "RuntimeError":
            return "strict CAS did not refuse a structure of foreign type %s through handle %s (outcome %s)" % (tn, path, out)
    return None


def render(sc, obs):
    schema = {n: {"anc": v["anc"], "feats": [tuple(f) for f in v["feats"]]} for n, v in obs["schema"].items()}
    m = obs["main"]
    if "err" in m:
        if m["err"] not in ERR:
            return None
        out = "OErr %s" % ERR[m["err"]]
    else:
        out = "OCas (%s)" % scen.g_ccas(m["canon"])
    adds = glist(["(%s, %s, %s)" % (glist([gstr(p) for p in path]), gstr(tn), "None" if o is None else "(Some %s)" % ERR.get(o, "EType"))
                  for path, tn, o in obs["adds"] if tn != "?"])
    flts = glist(["(%s, %s)" % (gstr(k), gstr(v)) for k, v in sorted(obs["flts"].items())])
    return "mkCase\n %s\n %s\n %s %s\n (%s)\n %s" % (scen.g_schema(schema), xmlabs.g_xdoc(obs["doc"]), flts,
                                                    gbool(sc["lenient"]), out, adds)


def nontrivial(sc):
    types = {o["type"] for o in sc["cspec"]["objs"]}
    return bool(types & set(sc["deleted"]))


def generate(rng, tier):
    from harness import core
    cassis = _CACHE.get("cassis") or core.load_impl()
    _CACHE["cassis"] = cassis
    n = {"quick": 40, "thorough": 320, "search": 400}[tier]
    for k in range(n):
        r = random.Random(rng.randrange(1 << 30))
        tspec = scen.gen_tspec(r, n_types=r.choice([3, 5, 8]), max_feats=r.choice([2, 4]))
        cspec = scen.gen_cspec(r, cassis, tspec, n_objs=(2, 6 if tier == "quick" else 10))
        foreign_short = []
        if k % 3 == 0 and any(t["name"] == "NoNs" for t in tspec):
            tspec, cspec = rename_type(tspec, cspec, "NoNs", "T0")          # short name of a.b.T0
        user = [t["name"] for t in tspec if t["name"] != "a.MyStr"]
        foreign_short = [n_.rsplit(".", 1)[-1] for n_ in user if "." in n_][:1]
        used = sorted({o["type"] for o in cspec["objs"] if o["type"] in user})
        picks = [[]]
        for _ in range(2 if tier == "quick" else 3):
            base = r.sample(used, r.randint(1, max(1, len(used) // 2))) if used else []
            if "T0" in user and r.random() < 0.6:
                base = list(set(base) | {"T0"})
            d = close_deleted(tspec, base)
            if len(d) < len(user):
                picks.append(sorted(d))
        for deleted in picks:
            cleared = clear_dangling(cspec, set(deleted))
            dangling = r.random() < 0.3 and cleared != cspec
            cs = cspec if dangling else cleared
            order = r.choice([None, None, "shuffle", "sofa_first", "reverse", "desc_id"])
            oseed = r.randrange(1 << 30)
            for lenient in (True, False):
                yield {"tspec": tspec, "cspec": cs, "deleted": deleted, "lenient": lenient, "dangling": dangling,
                       "order": order, "oseed": oseed, "foreign_short": [s for s in foreign_short if s not in user]}


def shrink_candidates(sc):
    if sc.get("order"):
        c = json.loads(json.dumps(sc))
        c["order"] = None
        yield c
    for o in reversed(sc["cspec"]["objs"]):
        c2 = c05._drop_obj(sc["cspec"], o["o"])
        if c2 is not None:
            c = json.loads(json.dumps(sc))
            c["cspec"] = c2
            yield c
    if len(sc["cspec"]["views"]) > 1:
        used = {m[0] for m in sc["cspec"]["members"]} | {i for i, v in enumerate(sc["cspec"]["views"]) if any(
            (o["slots"].get("sofa") or {}).get("sofa") == v["name"] for o in sc["cspec"]["objs"])}
        last = len(sc["cspec"]["views"]) - 1
        if last not in used:
            c = json.loads(json.dumps(sc))
            c["cspec"]["views"].pop()
            yield c
    for d in sc["deleted"]:
        c = json.loads(json.dumps(sc))
        c["deleted"] = sorted(close_deleted(sc["tspec"], [x for x in sc["deleted"] if x != d]) if len(sc["deleted"]) > 1 else [])
        if c["deleted"] != sc["deleted"]:
            yield c


def signature(sc, msg):
    return {"what": (msg or "").split(":")[0][:70], "lenient": sc["lenient"]}


def distribution(scenarios, observations):
    errs = {}
    for o in observations:
        if o and "err" in o["main"]:
            errs[o["main"]["err"]] = errs.get(o["main"]["err"], 0) + 1
    return {"cases": len(scenarios), "lenient": sum(1 for s in scenarios if s["lenient"]),
            "with_deleted_types": sum(1 for s in scenarios if s["deleted"]),
            "with_unknown_elements": sum(1 for o in observations if o and o["n_unknown"]),
            "dangling": sum(1 for s in scenarios if s["dangling"]), "error_kinds": errs,
            "views": {n: sum(1 for s in scenarios if len(s["cspec"]["views"]) == n) for n in (1, 2, 3)},
            "add_attempts": sum(len(o["adds"]) for o in observations if o),
            "short_name_collisions": sum(1 for s in scenarios if any(t["name"] == "T0" for t in s["tspec"]))}


MANIFEST = {
    "level_text": "Machine-checked proof (Coq 8.16) over the executable model of the XMI reader and of the Cas.add guard / handle "
                  "copy: strict loading of a document with an element of undefined type raises TypeNotFoundError; lenient "
                  "loading equals strict loading of the document with those elements and their member ids removed, flag apart, "
                  "for all documents (equal errors for dangling references); with all types known the flag changes nothing; the "
                  "flag reaches every handle; strict handles refuse foreign types by exact name. The model is tied to /repo on "
                  "every run by evaluating it inside Coq on generated documents x deleted type sets x flag x handles.",
    "level_note": "Trusted: Coq kernel + vm_compute; hand-written model XmiLoad.v; xml.etree for bytes <-> abstract documents and "
                  "for the independent filtering; the document under test is cassis' own writer output (C01/C04).",
    "technique": "Coq proof over an executable Gallina model + in-Coq behavioural correspondence + direct oracle (filter semantics)",
    "design_ref": "DESIGN.md section 5, C17",
}
