"""C17 — lenient loading drops exactly the feature structures of unknown type; strict loading refuses.

A scenario: a shared scen.py type system + CAS (1-3 views), the set of user types deleted from the type system that is
given to the reader (closed under subtypes and under "a kept type has a feature whose range was deleted"), the lenient flag,
and whether references from kept to dropped structures were cleared before saving ("closed", the quantifier of the property)
or left in the document ("dangling": then both sides must fail alike).
  document   cassis' own to_xmi output for the FULL type system, in two thirds of the cases re-written by xmlabs with the
             elements in another order (views and sofas first, reversed, shuffled: a View may precede its members)
  run        load_cas_from_xmi(bytes, reduced type system, lenient=flag)  ->  error kind | scen.canon + add outcomes
  oracle     strict + an element of a deleted type        -> TypeNotFoundError
             lenient                                       -> same outcome as loading, strictly, the document filtered by
                                                              the harness (elements of deleted types and their member ids
                                                              removed with xmlabs, independent of cassis)
             nothing deleted / no element of a deleted type -> both flags give the same content
             adds of a foreign-typed FS through the CAS, get_view(v), get_view(v).get_view(w), create_view(new) handles:
             accepted by every handle of a lenient CAS, RuntimeError from every handle of a strict CAS
In Coq (CorrC17.check_case): the model reader gives the same error kind / content, the model's lenient result equals the
model's strict result on drop_unknown(document), the add guard gives every observed outcome.

Second wave (the quantifier says "all XMI documents x ... x lenient in {True, False}"; the clauses are "with lenient=True it
yields EXACTLY the CAS that the same document with those structures removed would yield" and "without lenient=True raises"):
  source     the bytes are handed to load_cas_from_xmi as an open file, as a str or as a pathlib.Path, with trusted in
             {False, True} drawn independently of lenient (the reference loads of the oracle always use an open file, trusted=False)
  documents  in a quarter of the cases the sofa called _InitialView is renamed in the document, so that only named views are
             declared and the reader has to invent the sofa of the initial view; in half of the cases with deleted types the
             structures of deleted types carry the highest xmi:ids of the CAS
  exactly    "the CAS that ... would yield" includes its id generators: after the load a fresh uima.cas.TOP is added through
             the CAS and through every view handle, a new view is created and one more structure added; the xmi:ids / sofaNum
             they receive must be the ones the CAS of the filtered document hands out for the same operations (oracle), and the
             ones of the model's generators (Coq: XmiLoadC17.run_ops on gens_of)

Third wave ("the SUPPLIED type system does not define": what a type system defines is what has been created in it by the
time of the load - the quantifier "all subsets of user types deleted from the type system" says nothing about how the type
system came to be that subset; clauses "without lenient=True raises", "with lenient=True ... exactly", "leniency never alters
how known structures are loaded"):
  history    in half of the cases the TypeSystem object given to the observed load has served before: the same document was
             loaded through it (lenient or strict, 1-2 times) while further types were still missing, and those types (with
             their features) were created in the same object in between; the observed load and everything observed after it
             (content, later ids, adds through handles) must be what a NEW type system with the same types gives (oracle:
             extra reference load "fresh"; the filter / strict / non-interference clauses apply unchanged, their reference
             loads use new type systems); an earlier strict load with an element of a then-missing type must have raised
             TypeNotFoundError.  In Coq the whole session of the object is run by the model (XmiLoadC17.session): every
             earlier load ends as observed (error kind / a CAS) and the last one is the observed load.

Fourth wave (quantifier "all subsets of user types deleted from the type system": the subset may be ALL of them, and the one
non-built-in type a TypeSystem() defines by itself, uima.tcas.DocumentAnnotation, is a type like the others - a type system
made with add_document_annotation_type=False does not define it; clauses "a strict CAS refuses to index a structure of a
foreign type", "stays lenient through every view handle", "without lenient=True raises", "with lenient=True ... exactly"):
  subsets    extra picks per type system: every user type deleted (a.MyStr too), and / or uima.tcas.DocumentAnnotation
             deleted (sc["no_docann"]: every type system object of the case, used or new, is made without it); both together
             give a type system that defines built-in types only
  documents  for those picks the CAS may hold a uima.tcas.DocumentAnnotation structure and plain uima.cas.TOP structures, and
             in part of them the structures of deleted types are removed from the CAS before it is written ("pruned": a
             document without any element of unknown type, possibly with empty views, so that the strict load succeeds)
  foreign    the structures offered to the handles are now also instances of the DELETED types, made by the full type
             system (and a uima.tcas.DocumentAnnotation of a default TypeSystem() when that type is deleted) - the foreign
             types the property is about; and the strict CAS of the harness-filtered document (the reference load of the
             filter clause) is offered the same structures through the same handles: every one must be refused (oracle)
In Coq the type system of the loaded CAS is XmiLoadC17.loaded_ts (Cas.__init__: the one supplied, whatever it defines).
"""
import json
import os
import pathlib
import random
import shutil
from io import BytesIO

from harness import scen, xmlabs
from harness.gallina import gbool, glist, gstr
from harness.props import C05 as c05

ID = "C17"
COQ_TARGETS = ["XmiLoad.vo", "XmiLoadProofs.vo", "XmiLoadC17.vo", "XmiLoadC17Proofs.vo", "CorrC05.vo", "CorrC17.vo", "Props/C17.vo"]
PROPS_FILE = "Props/C17.v"
CORR_IMPORTS = "Base Heap Schema Canon XmiDoc XmiLoad XmiLoadC17 CorrC17"
ENTRY = "cassis.xmi.load_cas_from_xmi(lenient=...) / Cas.add / Cas._copy"
CASES_PER_SHARD = 40
SHARD_BYTES = 160_000
CASE_TIMEOUT_S = 30
RULE = (
    "scen.py type systems (3-8 user types, awkward names; in a third of the cases the no-namespace type is renamed so that "
    "its short name equals the short name of a namespaced type) and CASes with 1-3 views; every scenario is run for a "
    "random subset of deleted user types (closed under subtypes and feature ranges; also the empty subset) x lenient in "
    "{True, False} x element order in {as written, shuffled, views and sofas first, reversed, descending ids}; references from kept to dropped structures are cleared before saving, except in 30% of the cases that have "
    "such references, where they are left dangling; in 70% of the type systems one type has a StringArray / StringList feature written as nested child elements and is preferred for deletion; after a successful load a structure of a foreign type (new namespace, and a no-namespace name "
    "equal to the short name of a known type) is added through 4-6 handles. The bytes reach load_cas_from_xmi as an open "
    "file, a str or a pathlib.Path (a third each) with trusted in {False, True} independent of lenient; in a quarter of the "
    "cases the _InitialView sofa is renamed in the document (only named views declared); in half of the cases with deleted "
    "types their structures carry the highest xmi:ids; after every successful load fresh structures are added through "
    "every handle and a view is created, and the xmi:ids / sofaNum they receive are compared with those of the filtered "
    "document's CAS. In half of the cases the TypeSystem object of the observed load was used before for 1-2 loads of the "
    "same document (lenient or strict) while further user types (closed under subtypes and ranges, preferring types with "
    "instances) were missing, which were then created in the same object; in a fifth of those the earlier load saw the same "
    "types (plain reuse). Fourth wave, extra picks per type system: in 45% of them EVERY user type is deleted (a.MyStr too), "
    "in 70% of those and in a further 20% (any earlier pick) uima.tcas.DocumentAnnotation is deleted as well (every type system "
    "object of the case is made with add_document_annotation_type=False) - both together: a type system with built-in types "
    "only; for these picks the CAS gets, in half of the cases, a uima.tcas.DocumentAnnotation structure and 0-2 plain "
    "uima.cas.TOP structures, and in 60% (all deleted) / 25% the structures of deleted types are removed before writing, so "
    "that the document has no element of unknown type (possibly only empty views) and the strict load succeeds. In every "
    "case the structures offered to the handles are also instances of a deleted type made by the full type system "
    "(and a DocumentAnnotation of a default TypeSystem() when deleted), and the strict CAS of the harness-filtered document is "
    "offered the same structures through the same handles. Non-trivial: at least one element of the document has a deleted type."
)
TRUSTED = [
    "Coq 8.16.1 kernel and vm_compute; theorems in Props/C17.v closed under the global context (parse_flt universally quantified)",
    "hand-written model coq/XmiLoad.v of the reader's lenient branch, member skipping, Cas.add guard and Cas._copy; "
    "coq/XmiLoadC17.v of the entry point's three source branches, of the two id generators of the loaded CAS and of a "
    "TypeSystem object serving several loads with create_type in between (its state is the list of defined types) and of "
    "the type system Cas.__init__ keeps (the supplied one; only None is replaced)",
    "harness/xmlabs.py (xml.etree only) for bytes <-> abstract documents and for the independent filtering of the document",
    "scen.schema_of for the reduced type system; Python float(str) as a table per case",
    "the document under test is cassis' own to_xmi output (writer correctness is C01/C04)",
]
ASSUMPTIONS = [
    "user features are not called sofa, xmiID, elements, head or tail (DESIGN section 6: structural names; Cas.add sets any "
    "attribute called sofa)",
    "deleted type sets are closed under subtypes and feature ranges (the reduced type system is a type system)",
    "xmi:ids in documents are decimal numbers",
]
T = scen.T
DOCANN = "uima.tcas.DocumentAnnotation"
MYSTR = "a.MyStr"
ERR = {"TypeNotFoundError": "ETypeNotFound", "KeyError": "EKey", "ValueError": "EValue", "RuntimeError": "ERuntime",
       "TypeError": "EType", "AttributeError": "EAttribute", "IndexError": "EIndex"}
_CACHE = {}


# ------------------------------------------------------------------------------------------------ scenario surgery


def close_deleted(tspec, deleted):
    d = set(deleted)
    changed = True
    while changed:
        changed = False
        for t in tspec:
            if t["name"] in d:
                continue
            if t["super"] in d or any(f["range"] in d or (f.get("elem") in d) for f in t["feats"]):
                d.add(t["name"])
                changed = True
    return d


def reduce_tspec(tspec, deleted):
    return [t for t in tspec if t["name"] not in deleted]


def rename_type(tspec, cspec, old, new):
    def rn(x):
        return new if x == old else x
    ts2 = [{"name": rn(t["name"]), "super": rn(t["super"]),
            "feats": [{**f, "range": rn(f["range"]), "elem": rn(f.get("elem"))} for f in t["feats"]]} for t in tspec]
    cs2 = json.loads(json.dumps(cspec))
    for o in cs2["objs"]:
        o["type"] = rn(o["type"])
    return ts2, cs2


def clear_dangling(cspec, deleted):
    """Null every reference from a kept object to a dropped one (also inside arrays; list nodes lose their head)."""
    c = json.loads(json.dumps(cspec))
    dropped = {o["o"] for o in c["objs"] if o["type"] in deleted}

    def fix(v):
        if isinstance(v, dict):
            if v.get("ref") in dropped:
                return None
            if "list" in v:
                return {"list": [fix(x) for x in v["list"]]}
        return v

    for o in c["objs"]:
        if o["o"] not in dropped:
            o["slots"] = {k: fix(v) for k, v in o["slots"].items()}
    return c


def prune(cspec, gone):
    """The CAS without the structures of the types `gone` (references to them cleared, memberships removed)."""
    c = clear_dangling(cspec, gone)
    dropped = {o["o"] for o in c["objs"] if o["type"] in gone}
    c["objs"] = [o for o in c["objs"] if o["o"] not in dropped]
    c["members"] = [m for m in c["members"] if m[1] not in dropped]
    return c


def with_builtin_structures(fr, cspec, docann, tops):
    """The CAS with a uima.tcas.DocumentAnnotation over the text of one view and / or plain uima.cas.TOP structures, indexed."""
    c = json.loads(json.dumps(cspec))
    lab = max([o["o"] for o in c["objs"]] + [0])
    free = max([o["id"] for o in c["objs"] if o.get("id") is not None] + [len(c["views"])]) + 1
    if docann:
        vi = fr.randrange(len(c["views"]))
        lab, free = lab + 1, free + fr.randint(1, 3)
        c["objs"].append({"o": lab, "type": DOCANN, "id": free, "slots": {
            "sofa": {"sofa": c["views"][vi]["name"]}, "begin": {"i": 0}, "end": {"i": len(c["views"][vi]["text"] or [])},
            "language": fr.choice([None, {"s": "en"}, {"s": "x-unspecified"}])}})
        c["members"].append([vi, lab])
    for _ in range(tops):
        lab, free = lab + 1, free + fr.randint(1, 3)
        c["objs"].append({"o": lab, "type": scen.TOP, "id": free, "slots": {}})
        for vi in fr.sample(range(len(c["views"])), fr.randint(1, len(c["views"]))):
            c["members"].append([vi, lab])
    return c


def filter_doc(doc, schema_reduced):
    """Independent of cassis: drop the elements whose type the reduced schema does not define, and their member ids."""
    gone, keep = set(), []
    for e in doc["elems"]:
        if xmlabs.kind(e) == "FS" and c05.type_of_elem(e) not in schema_reduced:
            i = xmlabs.attr(e, "xmi:id")
            if i:
                gone.add(int(i))
        else:
            keep.append(e)
    out = []
    for e in keep:
        if xmlabs.kind(e) == "View":
            attrs = [[k, " ".join(t for t in v.split() if int(t) not in gone)] if k == "members" else [k, v] for k, v in e["attrs"]]
            e = {"ns": e["ns"], "tag": e["tag"], "attrs": attrs, "kids": e["kids"]}
        out.append(e)
    return {"root": doc.get("root"), "elems": out}, gone


# ------------------------------------------------------------------------------------------------ implementation driver


def _load(cassis, data, ts, lenient, source="file", trusted=False):
    """load_cas_from_xmi on the bytes, handed over as an open file, a str or a pathlib.Path (file under /verif/.work/<pid>/)."""
    d = None
    try:
        if source == "str":
            src = data.decode("utf-8")
        elif source == "path":
            from harness import core
            d = os.path.join(core.VERIF, ".work", str(os.getpid()), "c17")
            os.makedirs(d, exist_ok=True)
            src = pathlib.Path(d) / "doc.xmi"
            src.write_bytes(data)
        else:
            src = BytesIO(data)
        return "ok", cassis.load_cas_from_xmi(src, typesystem=ts, lenient=lenient, trusted=trusted)
    except Exception as e:  # noqa: the kind is the observation
        return "err", type(e).__name__
    finally:
        if d is not None:
            shutil.rmtree(d, ignore_errors=True)
            try:
                os.rmdir(os.path.dirname(d))            # /verif/.work/<pid>, when nothing else lives there
            except OSError:
                pass


def build_ts(cassis, tspec, no_docann=False):
    """scen.build_ts, or the same types in a type system made without the implicit uima.tcas.DocumentAnnotation."""
    if not no_docann:
        return scen.build_ts(cassis, tspec)
    ts = cassis.TypeSystem(add_document_annotation_type=False)
    grow_ts(ts, tspec, {t["name"] for t in tspec})
    return ts


def schema_of(cassis, tspec, no_docann=False):
    """scen.schema_of (computed from the specification), without uima.tcas.DocumentAnnotation when it is deleted."""
    schema = scen.schema_of(cassis, tspec)
    if no_docann:
        schema = {n: v for n, v in schema.items() if n != DOCANN}
    return schema


def gone_types(sc):
    return set(sc["deleted"]) | ({DOCANN} if sc.get("no_docann") else set())


def grow_ts(ts, tspec, names):
    """create_type (+ features) for the types of tspec called `names`, in the TypeSystem object ts, in tspec order."""
    new = [t for t in tspec if t["name"] in names]
    for t in new:
        ts.create_type(t["name"], t["super"])
    for t in new:
        for f in t["feats"]:
            ts.create_feature(ts.get_type(t["name"]), f["name"], f["range"], elementType=f.get("elem"),
                              multipleReferencesAllowed=f.get("multi"))


def ts_with_history(cassis, sc, data, doc):
    """The TypeSystem object for the observed load: new, or (sc["hist"]) one that has already served loads of the same
    document while the types st["absent"] were missing as well, those types created in it afterwards.
    Returns the object and, per earlier load, [error kind | None, number of elements of a type missing at that time]."""
    deleted = set(sc["deleted"])
    hist = sc.get("hist") or []
    nd = bool(sc.get("no_docann"))
    if not hist:
        return build_ts(cassis, reduce_tspec(sc["tspec"], deleted), nd), []
    ts = build_ts(cassis, reduce_tspec(sc["tspec"], deleted | set(hist[0]["absent"])), nd)
    stages = []
    for i, st in enumerate(hist):
        missing = deleted | set(st["absent"])
        schema_i = schema_of(cassis, reduce_tspec(sc["tspec"], missing), nd)
        n_unknown = sum(1 for e in doc["elems"] if xmlabs.kind(e) == "FS" and c05.type_of_elem(e) not in schema_i)
        k, v = _load(cassis, data, ts, st["lenient"])
        stages.append([v if k == "err" else None, n_unknown])
        nxt = set(hist[i + 1]["absent"]) if i + 1 < len(hist) else set()
        grow_ts(ts, sc["tspec"], set(st["absent"]) - nxt)
    return ts, stages


LATER_VIEW = "laterView"


def _later(cassis, cas):
    """Operations after the load and the numbers they receive from the id generators of the CAS: a fresh uima.cas.TOP (no
    xmi:id) added through the CAS and through the handle of every view, a new view, one more add in that view."""
    out = []
    try:
        top = cas.typesystem.get_type(scen.TOP)
        for h in [cas] + [cas.get_view(s.sofaID) for s in cas.sofas]:
            fs = top()
            h.add(fs)
            out.append(["add", [fs.xmiID]])
        v = cas.create_view(LATER_VIEW)
        out.append(["view", [v.get_sofa().xmiID, v.get_sofa().sofaNum]])
        fs = top()
        v.add(fs)
        out.append(["add", [fs.xmiID]])
    except Exception as e:  # noqa
        out.append(["err", type(e).__name__])
    return out


def rename_initial(doc, new):
    """The same document with the sofa called _InitialView called `new`: only named views are declared."""
    elems = []
    for e in doc["elems"]:
        if xmlabs.kind(e) == "Sofa" and xmlabs.attr(e, "sofaID") == "_InitialView":
            e = {"ns": e["ns"], "tag": e["tag"], "attrs": [[k, new if k == "sofaID" else v] for k, v in e["attrs"]], "kids": e["kids"]}
        elems.append(e)
    return {"root": doc.get("root"), "elems": elems}


def raise_dropped_ids(cspec, deleted):
    """The same CAS with the xmi:ids permuted so that the structures of deleted types carry the highest ones."""
    c = json.loads(json.dumps(cspec))
    if any(o.get("id") is None for o in c["objs"]):
        return c
    ids = sorted(o["id"] for o in c["objs"])
    order = sorted(c["objs"], key=lambda o: (o["type"] in deleted, o["id"]))
    for o, i in zip(order, ids):
        o["id"] = i
    return c


def _outcome(cassis, kind, val):
    if kind == "err":
        return {"err": val}
    c = scen.canon(val, "xmi")
    return {"canon": c, "later": _later(cassis, val)}


def foreign_deleted(sc):
    """Deleted types whose instances are offered to the handles: one user type, and the DocumentAnnotation."""
    return [n for n in sorted(sc["deleted"]) if n != MYSTR][-1:] + ([DOCANN] if sc.get("no_docann") else [])


def _adds(cassis, cas, ts_full_names, sc, ts_full=None):
    """Add a structure of a foreign type through several handles; the FS is fresh for every attempt.  Foreign types: names
    no type system of the case knows, and (fourth wave) the deleted types themselves, as the full type system defines them."""
    foreign = cassis.TypeSystem()
    names = ["zz.other.Foreign"] + sc.get("foreign_short", [])
    ftypes = []
    for n in names:
        if n in ts_full_names:
            continue
        ftypes.append(foreign.create_type(n, scen.TOP))
    for n in (foreign_deleted(sc) if ts_full is not None else []):
        if n not in ts_full_names:
            ftypes.append(ts_full.get_type(n))
    views = [s.sofaID for s in cas.sofas]
    paths = [[]] + [[v] for v in views[:2]] + ([[views[0], views[-1]]] if views else []) + [["+fresh_view"], ["+fresh_view", views[0]]]
    out = []
    for path in paths:
        h = cas
        try:
            for step in path:
                if step.startswith("+"):
                    name = step[1:]
                    h = h.get_view(name) if name in [s.sofaID for s in cas.sofas] else h.create_view(name)
                else:
                    h = h.get_view(step)
        except Exception as e:  # noqa
            out.append([path, "?", "path:" + type(e).__name__])
            continue
        for ft in ftypes:
            try:
                h.add(ft())
                out.append([[p.lstrip("+") for p in path], ft.name, None])
            except Exception as e:  # noqa
                out.append([[p.lstrip("+") for p in path], ft.name, type(e).__name__])
    return out


def run_impl(cassis, sc):
    ts_full = scen.build_ts(cassis, sc["tspec"])
    cspec = sc["cspec"]
    cas, _v, _o = scen.build_cas(cassis, ts_full, cspec)
    data = cas.to_xmi().encode("utf-8")
    doc = xmlabs.parse(data)
    if sc.get("order") or sc.get("noinit"):   # the same document with its elements in another order (views / sofas anywhere)
        idx = c05.order_of(doc, {"order": sc.get("order")}, random.Random(sc.get("oseed", 0)))
        d2 = {"root": doc.get("root"), "elems": [doc["elems"][i] for i in idx]}
        if sc.get("noinit"):                 # ... and / or without a sofa called _InitialView
            d2 = rename_initial(d2, "zeroView")
        data = xmlabs.write(d2)
        doc = xmlabs.parse(data)
    red = reduce_tspec(sc["tspec"], set(sc["deleted"]))
    nd = bool(sc.get("no_docann"))
    schema = schema_of(cassis, red, nd)
    fdoc, gone = filter_doc(doc, schema)
    lenient = sc["lenient"]
    source, trusted = sc.get("source", "file"), bool(sc.get("trusted"))
    ts_main, stages = ts_with_history(cassis, sc, data, doc)
    k, v = _load(cassis, data, ts_main, lenient, source, trusted)
    main = _outcome(cassis, k, v)
    fresh = None
    if sc.get("hist"):                                  # the same load through a new type system with the same types
        k0, v0 = _load(cassis, data, build_ts(cassis, red, nd), lenient, source, trusted)
        fresh = _outcome(cassis, k0, v0)
    defined = {t["name"] for t in red} | (set(scen.builtin_table(cassis)) - ({DOCANN} if nd else set()))
    adds = _adds(cassis, v, defined, sc, ts_full) if k == "ok" else []
    k2, v2 = _load(cassis, xmlabs.write(fdoc), build_ts(cassis, red, nd), False)
    filtered = _outcome(cassis, k2, v2)
    fadds = _adds(cassis, v2, defined, sc, ts_full) if k2 == "ok" else []     # the strict CAS of the filtered document
    k3, v3 = _load(cassis, data, build_ts(cassis, red, nd), not lenient, source, trusted)
    other = _outcome(cassis, k3, v3)
    names = c05.used_names(schema, doc)
    for t in red:                                   # every user type: short-name lookups must see them all
        if t["name"] not in names:
            names.append(t["name"])
    top = max(doc["elems"], key=lambda e: int(xmlabs.attr(e, "xmi:id") or -1) if xmlabs.kind(e) in ("FS", "Sofa") else -1)
    return {"main": main, "filtered": filtered, "other": other, "adds": adds, "fadds": fadds, "doc": doc, "fresh": fresh, "stages": stages,
            "top_dropped": xmlabs.kind(top) == "FS" and c05.type_of_elem(top) not in schema,
            "dropped_kids": any(xmlabs.kind(e) == "FS" and e["kids"] and c05.type_of_elem(e) not in schema for e in doc["elems"]),
            "n_unknown": len(gone) if gone else
            sum(1 for e in doc["elems"] if xmlabs.kind(e) == "FS" and c05.type_of_elem(e) not in schema),
            "flts": c05.float_table(scen.schema_of(cassis, sc["tspec"]), doc),
            "schema": {n: {"anc": schema[n]["anc"], "feats": [list(f) for f in schema[n]["feats"]]} for n in sorted(names)}}


def _same(a, b):
    return json.loads(json.dumps(a, sort_keys=True)) == json.loads(json.dumps(b, sort_keys=True))


def _content(o):
    return {k: v for k, v in o.items() if k != "later"}


def _brief(o):
    if "err" in o:
        return "raises " + o["err"]
    c = o["canon"]
    return "members %s, structures %s" % (json.dumps({x["name"]: x["members"] for x in c["sofas"]}),
                                          json.dumps({i: d["type"] for i, d in sorted(c["fs"].items(), key=lambda kv: int(kv[0]))}))[:400]


def _later_differs(what, a, b):
    """Same content: do later operations receive the same numbers from both CASes?"""
    if "later" in a and "later" in b and a["later"] != b["later"]:
        return ("%s: the loaded CASes have the same content but hand out other xmi:ids / sofaNums afterwards "
                "(add through the CAS and every view handle, create_view, add): %s vs %s" % (what, json.dumps(a["later"]), json.dumps(b["later"])))
    return None


def oracle(cassis, sc, obs):
    main, filt, other = obs["main"], obs["filtered"], obs["other"]
    unknown = obs["n_unknown"] > 0
    how = "source=%s trusted=%s" % (sc.get("source", "file"), bool(sc.get("trusted")))
    fresh = obs.get("fresh")
    for st, (err, n_unk) in zip(sc.get("hist") or [], obs.get("stages") or []):
        if not st["lenient"] and n_unk and err != "TypeNotFoundError":
            return ("an earlier strict load through the same TypeSystem object, when %d element(s) had a type it did not "
                    "yet define, did not raise TypeNotFoundError: %s" % (n_unk, err))
    if fresh is not None:
        hdesc = "; ".join("%s load without %s" % ("lenient" if st["lenient"] else "strict", ",".join(st["absent"]) or "-")
                          for st in sc["hist"])
        if not _same(_content(main), _content(fresh)):
            return ("the type system served earlier loads (%s) before the missing types were created in it, and now loads "
                    "(lenient=%s) the document differently from a new type system with the same types: %s vs %s" % (
                        hdesc, sc["lenient"], _brief(main), _brief(fresh)))
        if _later_differs("used type system vs new type system with the same types", main, fresh):
            return _later_differs("used type system vs new type system with the same types", main, fresh)
    for o in (main, filt, other) + ((fresh,) if fresh is not None else ()):
        if any(x[0] == "err" for x in o.get("later", [])):
            return "an operation after the load failed: %s" % json.dumps(o["later"])
    if not sc["lenient"]:
        if unknown and main.get("err") != "TypeNotFoundError":
            return "strict loading (%s) of a document with %d element(s) of undefined type did not raise TypeNotFoundError: %s" % (
                how, obs["n_unknown"], json.dumps(main)[:200])
        if not unknown and not _same(_content(main), _content(filt)):
            return "strict loading: content differs from the same document written by the harness"
        if not unknown and _later_differs("strict loading", main, filt):
            return _later_differs("strict loading", main, filt)
    else:
        if not _same(_content(main), _content(filt)):
            return "lenient loading (%s) is not the filter: lenient %s, strict on the filtered document %s" % (
                how, json.dumps(_content(main))[:300], json.dumps(_content(filt))[:300])
        if _later_differs("lenient loading is not the filter", main, filt):
            return _later_differs("lenient loading is not the filter", main, filt)
    if not unknown and not _same(_content(main), _content(other)):
        return "all types are known but the lenient flag changes the result (%s): %s vs %s" % (
            how, json.dumps(_content(main))[:200], json.dumps(_content(other))[:200])
    if not unknown and _later_differs("all types are known but the lenient flag matters", main, other):
        return _later_differs("all types are known but the lenient flag matters", main, other)
    for path, tn, out in obs["adds"]:
        if tn == "?":
            return "handle %s could not be obtained: %s" % (path, out)
        if sc["lenient"] and out is not None:
            return "lenient CAS refused a structure of foreign type %s through handle %s: %s" % (tn, path, out)
        if not sc["lenient"] and out != "RuntimeError":
            return "strict CAS did not refuse a structure of foreign type %s through handle %s (outcome %s)" % (tn, path, out)
    for path, tn, out in obs.get("fadds") or []:
        if tn == "?":
            return "handle %s of the strictly loaded filtered document could not be obtained: %s" % (path, out)
        if out != "RuntimeError":
            return ("strict CAS did not refuse a structure of foreign type %s through handle %s (outcome %s): the document without "
                    "the structures of undefined types, loaded without lenient" % (tn, path, out))
    return None


def render(sc, obs):
    schema = {n: {"anc": v["anc"], "feats": [tuple(f) for f in v["feats"]]} for n, v in obs["schema"].items()}
    m = obs["main"]
    if "err" in m:
        if m["err"] not in ERR:
            return None
        out = "OErr %s" % ERR[m["err"]]
    else:
        out = "OCas (%s)" % scen.g_ccas(m["canon"])
    adds = glist(["(%s, %s, %s)" % (glist([gstr(p) for p in path]), gstr(tn), "None" if o is None else "(Some %s)" % ERR.get(o, "EType"))
                  for path, tn, o in obs["adds"] if tn != "?"])
    flts = glist(["(%s, %s)" % (gstr(k), gstr(v)) for k, v in sorted(obs["flts"].items())])
    later = m.get("later", [])
    if any(x[0] == "err" for x in later):
        return None
    glater = glist(["(%s, %s)" % ({"add": "OpAdd", "view": "OpNewView"}[k], glist(["(%d)" % i for i in ids])) for k, ids in later])
    src = {"file": "SrcFile", "str": "SrcStr", "path": "SrcPath"}[sc.get("source", "file")]
    ghist = []
    for st, (err, _n) in zip(sc.get("hist") or [], obs.get("stages") or []):
        if err is not None and err not in ERR:
            return None
        ghist.append("(%s, %s, %s)" % (glist([gstr(a) for a in st["absent"]]), gbool(st["lenient"]),
                                       "None" if err is None else "(Some %s)" % ERR[err]))
    return "mkCase\n %s\n %s\n %s %s %s %s\n %s\n (%s)\n %s\n %s" % (scen.g_schema(schema), xmlabs.g_xdoc(obs["doc"]), flts,
                                                                    gbool(sc["lenient"]), src, gbool(bool(sc.get("trusted"))),
                                                                    glist(ghist), out, glater, adds)


def nontrivial(sc):
    types = {o["type"] for o in sc["cspec"]["objs"]}
    return bool(types & gone_types(sc))


def generate(rng, tier):
    from harness import core
    cassis = _CACHE.get("cassis") or core.load_impl()
    _CACHE["cassis"] = cassis
    n = {"quick": 40, "thorough": 320, "search": 400}[tier]
    for k in range(n):
        sub = rng.randrange(1 << 30)
        r = random.Random(sub)
        hr = random.Random(sub ^ 0x17C3)      # own stream for the third-wave choices: everything else stays as it was
        fr = random.Random(sub ^ 0x4A11)      # ... and one for the fourth-wave picks, which come after the old ones
        tspec = scen.gen_tspec(r, n_types=r.choice([3, 5, 8]), max_feats=r.choice([2, 4]))
        kids_type = None
        if r.random() < 0.7:     # a string array / list written as nested child elements: what a dropped element may carry
            t = r.choice([t for t in tspec if t["name"] != "a.MyStr"])
            if not any(f["name"] == "kids0" for u in tspec for f in u["feats"]):
                t["feats"].append({"name": "kids0", "range": r.choice([T + "StringArray", T + "StringList"]), "elem": None,
                                   "multi": r.choice([None, False])})
                kids_type = t["name"]
        cspec = scen.gen_cspec(r, cassis, tspec, n_objs=(2, 6 if tier == "quick" else 10))
        foreign_short = []
        if k % 3 == 0 and any(t["name"] == "NoNs" for t in tspec):
            tspec, cspec = rename_type(tspec, cspec, "NoNs", "T0")          # short name of a.b.T0
            kids_type = "T0" if kids_type == "NoNs" else kids_type
        user = [t["name"] for t in tspec if t["name"] != "a.MyStr"]
        foreign_short = [n_.rsplit(".", 1)[-1] for n_ in user if "." in n_][:1]
        used = sorted({o["type"] for o in cspec["objs"] if o["type"] in user})
        picks = [[]]
        for _ in range(2 if tier == "quick" else 3):
            base = r.sample(used, r.randint(1, max(1, len(used) // 2))) if used else []
            if "T0" in user and r.random() < 0.6:
                base = list(set(base) | {"T0"})
            if kids_type in used and r.random() < 0.5:
                base = list(set(base) | {kids_type})
            d = close_deleted(tspec, base)
            if len(d) < len(user):
                picks.append(sorted(d))
        for deleted in picks:
            cleared = clear_dangling(cspec, set(deleted))
            dangling = r.random() < 0.3 and cleared != cspec
            cs = cspec if dangling else cleared
            hi_ids = bool(deleted) and r.random() < 0.5
            if hi_ids:                                   # the structures that will be dropped carry the highest xmi:ids
                cs = raise_dropped_ids(cs, set(deleted))
            noinit = r.random() < 0.25
            order = r.choice([None, None, "shuffle", "sofa_first", "reverse", "desc_id"])
            oseed = r.randrange(1 << 30)
            for lenient in (True, False):
                yield {"tspec": tspec, "cspec": cs, "deleted": deleted, "lenient": lenient, "dangling": dangling,
                       "order": order, "oseed": oseed, "foreign_short": [s for s in foreign_short if s not in user],
                       "source": r.choice(["file", "str", "path"]), "trusted": r.random() < 0.5, "noinit": noinit,
                       "hi_ids": hi_ids, "hist": gen_hist(hr, tspec, cs, user, set(deleted))}
        # fourth wave: ALL user types deleted and / or uima.tcas.DocumentAnnotation deleted (both: built-in types only)
        extra = []
        if fr.random() < 0.45:
            extra.append((sorted(user + [MYSTR]), fr.random() < 0.7))
        if fr.random() < 0.2:
            extra.append((fr.choice(picks), True))
        for deleted, no_docann in extra:
            gone = set(deleted) | ({DOCANN} if no_docann else set())
            cs = with_builtin_structures(fr, cspec, fr.random() < 0.5, fr.choice([0, 0, 1, 2]))
            pruned = fr.random() < (0.6 if len(deleted) > len(user) else 0.25)
            cleared = clear_dangling(cs, gone)
            dangling = (not pruned) and fr.random() < 0.2 and cleared != cs
            cs = prune(cs, gone) if pruned else cs if dangling else cleared
            hi_ids = bool(gone) and not pruned and fr.random() < 0.5
            if hi_ids:
                cs = raise_dropped_ids(cs, gone)
            noinit, order, oseed = fr.random() < 0.25, fr.choice([None, None, "shuffle", "sofa_first", "reverse", "desc_id"]), fr.randrange(1 << 30)
            for lenient in (True, False):
                yield {"tspec": tspec, "cspec": cs, "deleted": deleted, "lenient": lenient, "dangling": dangling,
                       "order": order, "oseed": oseed, "foreign_short": [s for s in foreign_short if s not in user],
                       "source": fr.choice(["file", "str", "path"]), "trusted": fr.random() < 0.5, "noinit": noinit,
                       "hi_ids": hi_ids, "hist": gen_hist(fr, tspec, cs, user, set(deleted)), "no_docann": no_docann,
                       "pruned": pruned}


def gen_hist(hr, tspec, cspec, user, deleted):
    """Earlier loads through the TypeSystem object of the case: [{"absent": types missing then (besides `deleted`),
    "lenient": flag}], the sets shrinking from one load to the next; [] = a new type system."""
    if hr.random() < 0.5:
        return []
    kept = [n for n in user if n not in deleted]
    inst = sorted({o["type"] for o in cspec["objs"]} & set(kept))

    def closed(base):
        d = close_deleted(tspec, deleted | set(base)) - deleted
        return sorted(d) if len(d) < len(kept) else None     # something of the user's stays defined at every stage

    first = []
    if kept and hr.random() < 0.8:
        pool = inst if inst and hr.random() < 0.8 else kept
        first = closed(hr.sample(pool, hr.randint(1, max(1, len(pool) // 2)))) or []
    hist = [{"absent": first, "lenient": hr.random() < 0.6}]
    if hr.random() < 0.35:
        second = []
        if len(first) > 1 and hr.random() < 0.7:
            second = [n for n in (closed(hr.sample(first, hr.randint(1, len(first) - 1))) or []) if n in first]
        hist.append({"absent": second, "lenient": hr.random() < 0.5})
    return hist


def shrink_candidates(sc):
    if sc.get("hist"):
        for h in ([], sc["hist"][:-1], sc["hist"][1:]):
            if h != sc["hist"]:
                c = json.loads(json.dumps(sc))
                c["hist"] = h
                yield c
    for key, plain in (("order", None), ("noinit", False), ("source", "file"), ("trusted", False), ("no_docann", False)):
        if sc.get(key) not in (None, plain):
            c = json.loads(json.dumps(sc))
            c[key] = plain
            yield c
    for o in reversed(sc["cspec"]["objs"]):
        c2 = c05._drop_obj(sc["cspec"], o["o"])
        if c2 is not None:
            c = json.loads(json.dumps(sc))
            c["cspec"] = c2
            yield c
    if len(sc["cspec"]["views"]) > 1:
        used = {m[0] for m in sc["cspec"]["members"]} | {i for i, v in enumerate(sc["cspec"]["views"]) if any(
            (o["slots"].get("sofa") or {}).get("sofa") == v["name"] for o in sc["cspec"]["objs"])}
        last = len(sc["cspec"]["views"]) - 1
        if last not in used:
            c = json.loads(json.dumps(sc))
            c["cspec"]["views"].pop()
            yield c
    for d in sc["deleted"]:
        c = json.loads(json.dumps(sc))
        c["deleted"] = sorted(close_deleted(sc["tspec"], [x for x in sc["deleted"] if x != d]) if len(sc["deleted"]) > 1 else [])
        if c["deleted"] != sc["deleted"]:
            yield c


def signature(sc, msg):
    return {"what": (msg or "").split(":")[0].split(" (source=")[0][:70], "lenient": sc["lenient"]}


def _count(it):
    out = {}
    for x in it:
        out[x] = out.get(x, 0) + 1
    return out


def distribution(scenarios, observations):
    errs = {}
    for o in observations:
        if o and "err" in o["main"]:
            errs[o["main"]["err"]] = errs.get(o["main"]["err"], 0) + 1
    return {"cases": len(scenarios), "lenient": sum(1 for s in scenarios if s["lenient"]),
            "with_deleted_types": sum(1 for s in scenarios if s["deleted"]),
            "with_unknown_elements": sum(1 for o in observations if o and o["n_unknown"]),
            "dangling": sum(1 for s in scenarios if s["dangling"]), "error_kinds": errs,
            "views": {n: sum(1 for s in scenarios if len(s["cspec"]["views"]) == n) for n in (1, 2, 3)},
            "add_attempts": sum(len(o["adds"]) for o in observations if o),
            "source": {k: sum(1 for s in scenarios if s.get("source", "file") == k) for k in ("file", "str", "path")},
            "path_and_lenient_differs_from_trusted": sum(1 for s in scenarios if s.get("source") == "path"
                                                         and bool(s.get("trusted")) != s["lenient"]),
            "no_initial_view_sofa": sum(1 for s in scenarios if s.get("noinit")),
            "highest_id_is_dropped": sum(1 for o in observations if o and o.get("top_dropped")),
            "later_operations": sum(len(o["main"].get("later", [])) for o in observations if o),
            "dropped_elements_with_child_elements": sum(1 for o in observations if o and o.get("dropped_kids")),
            "used_type_system": sum(1 for s in scenarios if s.get("hist")),
            "earlier_loads": sum(len(s.get("hist") or []) for s in scenarios),
            "types_created_after_a_load": sum(1 for s in scenarios if any(st["absent"] for st in s.get("hist") or [])),
            "earlier_load_met_then_missing_type": sum(1 for o in observations if o and any(n for _e, n in o.get("stages") or [])),
            "earlier_load_outcomes": _count(str(e) for o in observations if o for e, _n in o.get("stages") or []),
            "short_name_collisions": sum(1 for s in scenarios if any(t["name"] == "T0" for t in s["tspec"])),
            "all_user_types_deleted": sum(1 for s in scenarios if _all_deleted(s)),
            "without_document_annotation_type": sum(1 for s in scenarios if s.get("no_docann")),
            "built_in_types_only": sum(1 for s in scenarios if _all_deleted(s) and s.get("no_docann")),
            "built_in_types_only_strict_load_succeeded": sum(1 for s, o in zip(scenarios, observations) if o and _all_deleted(s)
                                                             and s.get("no_docann") and not s["lenient"] and "canon" in o["main"]),
            "document_annotation_element_of_undefined_type": sum(1 for s in scenarios if s.get("no_docann") and any(
                o["type"] == DOCANN for o in s["cspec"]["objs"])),
            "pruned_documents": sum(1 for s in scenarios if s.get("pruned")),
            "documents_with_empty_views_only": sum(1 for s in scenarios if not s["cspec"]["members"]),
            "adds_of_deleted_types": sum(1 for s, o in zip(scenarios, observations) if o for a in o["adds"] + (o.get("fadds") or [])
                                         if a[1] in gone_types(s)),
            "adds_to_filtered_strict_cas": sum(len(o.get("fadds") or []) for o in observations if o)}


def _all_deleted(s):
    return {t["name"] for t in s["tspec"]} <= set(s["deleted"])


MANIFEST = {
    "level_text": "Machine-checked proof (Coq 8.16) over the executable model of the XMI reader and of the Cas.add guard / handle "
                  "copy: strict loading of a document with an element of undefined type raises TypeNotFoundError; lenient "
                  "loading equals strict loading of the document with those elements and their member ids removed, flag apart, "
                  "for all documents (equal errors for dangling references); with all types known the flag changes nothing; the "
                  "flag reaches every handle; strict handles refuse foreign types by exact name. The model is tied to /repo on "
                  "every run by evaluating it inside Coq on generated documents x deleted type sets x flag x handles.",
    "level_note": "Trusted: Coq kernel + vm_compute; hand-written model XmiLoad.v; xml.etree for bytes <-> abstract documents and "
                  "for the independent filtering; the document under test is cassis' own writer output (C01/C04).",
    "technique": "Coq proof over an executable Gallina model + in-Coq behavioural correspondence + direct oracle (filter semantics)",
    "design_ref": "DESIGN.md section 5, C17",
}
